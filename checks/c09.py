"""C09 - no bytes from the wire, a file or the API can crash the engine.

Level: exploration of a STRUCTURED malformed space derived from the specification modules (the
all-byte-strings claim is a fuzzing claim that TLC cannot enumerate; DESIGN 10):
 1. wire   : every single and sampled double structural mutation of well-formed messages (Wire.tla
             field-list representation) through ParseMessage (+ every typed getter), with and without
             dictionaries; TLC also judges accept/reject conformance of each (WireTrace).
 2. values : every near-miss text of Values.tla through every typed reader.
 3. framer : the C12 stream pieces plus junk under ragged reads (panic / hang detection).
 4. settings, dictionaries: every line-kind sequence <= 4 / malformed specification trees.
 5. validate: mutated messages against shipped dictionaries (FIX42, FIX44, FIXT11+FIX50SP2).
 6. session: Session.tla family "garbage" - malformed frames in every session state followed by an
             in-sequence TestRequest that must still be answered (monitor C09 stillProcesses),
             M -> G -> R -> V like the other session checks.
A panic or a hang (watchdog) in any of them is the violation.
"""
import itertools
import json
import os
import random

from lib import common, fixgen, sessfam
from checks import c11, c12, c14

LEVEL = 'exploration'
S = fixgen.SOH


def mutate_fields(fields, rng, double=False):
    """structural single mutations of a field list [(tag, value)]; yields (name, fields, raw_override)"""
    n = len(fields)
    for i in range(n):
        yield ('drop%d' % i, fields[:i] + fields[i + 1:])
        yield ('dup%d' % i, fields[:i + 1] + [fields[i]] + fields[i + 1:])
        yield ('empty%d' % i, fields[:i] + [(fields[i][0], '')] + fields[i + 1:])
        if i + 1 < n:
            yield ('swap%d' % i, fields[:i] + [fields[i + 1], fields[i]] + fields[i + 2:])
        yield ('notag%d' % i, fields[:i] + [('', fields[i][1])] + fields[i + 1:])
        yield ('badtag%d' % i, fields[:i] + [('x%s' % fields[i][0], fields[i][1])] + fields[i + 1:])
        yield ('negtag%d' % i, fields[:i] + [('-%s' % fields[i][0], fields[i][1])] + fields[i + 1:])
        yield ('bigtag%d' % i, fields[:i] + [('99999999999999999999', fields[i][1])] + fields[i + 1:])


def wire_cases(rng, quick):
    bases = [
        [(8, 'FIX.4.2'), (9, '0'), (35, 'D'), (49, 'A'), (56, 'B'), (34, '2'), (52, '20240101-00:00:00'), (11, 'id'), (55, 'IBM'), (10, '000')],
        [(8, 'FIX.4.4'), (9, '0'), (35, 'D'), (49, 'A'), (56, 'B'), (34, '2'), (453, '1'), (448, 'p'), (447, 'D'), (452, '1'), (10, '000')],
        [(8, 'FIX.4.2'), (9, '0'), (35, 'n'), (49, 'A'), (56, 'B'), (212, '4'), (213, '<a/>'), (58, 'x'), (93, '1'), (89, 'z'), (10, '000')],
        [(8, 'FIX.4.2'), (9, '0'), (35, 'A'), (49, 'A'), (56, 'B'), (34, '1'), (98, '0'), (108, '30'), (141, 'Y'), (10, '000')],
    ]
    cases = []

    def add(name, raw, dict_='none'):
        cases.append({'id': name, 'lead': 'bad', 'leadkind': name, 'delta': 1, 'dict': dict_, 'xml': False, 'fields': [],
                      'bytes': list(raw.encode('latin1', 'replace'))})
    for bi, base in enumerate(bases):
        singles = list(mutate_fields(base, rng))
        for name, fs in singles:
            for d in ('none', 'app', 'fixt'):
                add('b%d-%s' % (bi, name), fixgen.raw_build(fs), d)
        for _ in range(150 if quick else 1500):       # double mutations
            (n1, f1) = rng.choice(singles)
            second = list(mutate_fields(f1, rng))
            (n2, f2) = rng.choice(second)
            add('b%d-%s+%s' % (bi, n1, n2), fixgen.raw_build(f2), rng.choice(['none', 'app', 'fixt']))
        good = fixgen.raw_build(base)
        for cut in range(1, len(good)):                # truncation at every byte
            add('b%d-trunc%d' % (bi, cut), good[:cut])
        for lt in ['', '0', '-1', '-', '5x', '99999999999', '9' * 19, '9' * 25, ' 5', '+5']:
            add('b%d-len[%s]' % (bi, lt), fixgen.build(base[2:-1], begin=base[0][1], len_text=lt))
    # NumInGroup torture: the counter is read through the typed group accessor
    for cnt in ['-1', '0', '2', '99', '999999999', '99999999999', '999999999999999999', '9' * 25, 'x', '']:
        add('grpcount[%s]' % cnt, fixgen.build([(35, 'D'), (49, 'A'), (56, 'B'), (34, '2'), (453, cnt), (448, 'p'), (447, 'D'), (55, 'IBM')]))
    # XMLDataLen torture
    for xl in ['', '0', '-1', '3', '5', '50', '5000', '99999999999999999999', 'x', '4 ']:
        body = [(35, 'n'), (49, 'A'), (56, 'B'), (212, xl), (213, '<a/>'), (58, 'x')]
        add('xmllen[%s]' % xl, fixgen.build(body))
        add('xmllen-last[%s]' % xl, fixgen.build([(35, 'n'), (212, xl)]))
    for raw in ['', S, '8=', '8=FIX.4.2', '8=FIX.4.2' + S, '=' + S, '==' + S, S * 5, '8=FIX.4.2' + S + '9=5' + S, '10=000' + S,
                '8=FIX.4.2' + S + '9=0' + S + '35=0' + S + '10=' + S, 'garbage without any structure', '\x00\x01\x02']:
        add('raw%d' % len(cases), raw)
    return cases


def run_batch(ctx, sub, cases, extra, part):
    """runs a driver over the cases; if the PROCESS dies (a fatal error that recover() cannot catch:
    stack overflow, out of memory), the killing input is isolated by bisection in fresh processes,
    reported as a violation, and the rest of the batch is run without it."""
    cp = os.path.join(ctx.scratch, '%s_in.ndjson' % part)
    tp = os.path.join(ctx.scratch, '%s_out.ndjson' % part)

    def attempt(cs):
        common.ndjson_write(cp, cs)
        p = ctx.run_vh([sub, '-cases', cp, '-out', tp] + extra, timeout=3000, env={'GOMEMLIMIT': '4GiB'})
        return p
    todo = list(cases)
    rows = []
    killers = 0
    while todo:
        p = attempt(todo)
        if p.returncode == 0:
            rows += common.ndjson_read(tp)
            break
        done = common.ndjson_read(tp) if os.path.exists(tp) else []
        # the driver writes rows in order and flushes at exit only, so bisect instead of trusting the partial file
        lo, hi = 0, len(todo)
        while hi - lo > 1:
            mid = (lo + hi) // 2
            if attempt(todo[lo:mid]).returncode != 0:
                hi = mid
            else:
                lo = mid
        killer = todo[lo]
        if attempt([killer]).returncode == 0:
            raise common.Infra('vh %s died on a batch but not on the isolated case: %s' % (sub, p.stderr[-800:]))
        err = attempt([killer]).stderr
        first = next((l for l in err.splitlines() if 'fatal error' in l or 'runtime:' in l), err[:200])
        text = killer.get('text') or bytes(killer.get('bytes', [])).decode('latin1')
        ctx.report({'family': 'robust', 'part': part, 'kind': 'process-death'},
                   '%s: the process dies (%s) on %r' % (part, first.strip(), text[:200]), {'part': part, 'case': killer})
        killers += 1
        ok = attempt(todo[:lo])
        if ok.returncode == 0:
            rows += common.ndjson_read(tp)
        todo = todo[lo + 1:]
        if killers > 5:
            break
    return rows


def run(ctx):
    quick = ctx.tier == 'quick'
    rng = random.Random(ctx.seed)
    ctx.build()
    counts = {}
    samples = []
    # ---------------- 1 wire
    cases = wire_cases(rng, quick)
    tdd = os.path.join(ctx.scratch, 'tdd.xml')
    add = os.path.join(ctx.scratch, 'add.xml')
    with open(tdd, 'w') as f:
        f.write(fixgen.dict_xml('FIXT', [8, 9, 35, 49, 56, 34, 52, 50, 1128, 212, 213, 5001], [93, 89, 5002, 10], {}, fixt=True))
    with open(add, 'w') as f:
        f.write(fixgen.dict_xml('FIX', [8, 9, 35, 49, 56, 34, 52, 50, 212, 213], [93, 89, 10],
                                {'D': ('NewOrderSingle', [(11, False), (55, False), (58, False), (38, False),
                                                          ('group', 453, False, [(448, False), (447, False), (452, False)])])}))
    for i, c in enumerate(cases):
        c['idx'] = i
    rows = run_batch(ctx, 'wire', cases, ['-tdd', tdd, '-add', add, '-getters'], 'wire')
    counts['wire'] = len(rows)
    for r_ in rows:
        if 'panic' in r_:
            raw = bytes(cases[r_['idx']]['bytes']).decode('latin1')
            kind = 'nochecksum' if '10=' not in raw else ('xmllen' if '212=' in raw else ('emptylen' if '9=' + S in raw else 'other'))
            ctx.report({'family': 'robust', 'part': 'wire', 'kind': kind}, 'ParseMessage/getters: %s on %r (dict=%s)' % (r_['panic'], raw[:120], r_['dict']),
                       {'part': 'wire', 'case': cases[r_['idx']]})
    samples.append({'part': 'wire', 'bytes': bytes(cases[5]['bytes']).decode('latin1').replace(S, '|')})
    # ---------------- 2 values (reuse the C14 near-miss space; panics only)
    vcases = [c for c in c14.gen_cases(quick, rng) if c['op'] == 'read']
    vp = os.path.join(ctx.scratch, 'values.ndjson')
    common.ndjson_write(vp, vcases)
    vo = os.path.join(ctx.scratch, 'values_out.ndjson')
    p = ctx.run_vh(['values', '-cases', vp, '-out', vo], timeout=1800)
    if p.returncode != 0:
        raise common.Infra('vh values failed: ' + p.stderr[-1000:])
    vrows = common.ndjson_read(vo)
    counts['values'] = len(vrows)
    for r_ in vrows:
        if 'panic' in r_:
            ctx.report({'family': 'robust', 'part': 'values', 'ty': r_['ty'], 'empty': r_.get('t') == []},
                       '%s reader: %s on %r' % (r_['ty'], r_['panic'], bytes(r_.get('t', [])).decode('latin1')), {'part': 'values', 'case': r_})
    # ---------------- 3 framer
    P = c12.pieces()
    names = sorted(P)
    fcases = []
    for sq in list(itertools.product(names, repeat=2)) + rng.sample(list(itertools.product(names, repeat=3)), 100 if quick else 1000):
        s = ''.join(P[n] for n in sq)
        fcases.append({'id': '+'.join(sq), 'stream': [ord(c) for c in s]})
    for k in range(100 if quick else 1000):
        s = ''.join(rng.choice(['8=', '9=', '10=', S, '5', '-', 'x', '8=FIX.4.2' + S, '9=12' + S, '10=000' + S, '\x00', '9=' + S]) for _ in range(rng.randint(1, 30)))
        fcases.append({'id': 'junk%d' % k, 'stream': [ord(c) for c in s]})
    fp = os.path.join(ctx.scratch, 'framer.ndjson')
    common.ndjson_write(fp, fcases)
    fo = os.path.join(ctx.scratch, 'framer_out.ndjson')
    p = ctx.run_vh(['framer', '-cases', fp, '-out', fo, '-seed', str(ctx.seed), '-pairs', '5'], timeout=3000)
    if p.returncode != 0:
        raise common.Infra('vh framer failed: ' + p.stderr[-1000:])
    frows = common.ndjson_read(fo)
    counts['framer'] = json.loads(p.stdout.strip().splitlines()[-1])['runs']
    for r_ in frows:
        for x in r_['results']:
            if x['err'].startswith('panic') or x['err'] == 'hang':
                ctx.report({'family': 'robust', 'part': 'framer', 'kind': x['err'].split(':')[0]}, 'framer %s on stream %s' % (x['err'], r_['id']),
                           {'part': 'framer', 'case': {'id': r_['id'], 'stream': r_['stream']}})
    # ---------------- 4/5 settings, dictionaries, validation
    rcases = robust_cases(rng, quick)
    rrows = run_batch(ctx, 'robust', rcases, ['-repo', common.REPO], 'robust')
    byid = {c['id']: c for c in rcases}
    for k in ('settings', 'dict', 'validate'):
        counts[k] = sum(1 for r_ in rrows if r_['kind'] == k)
    for i, r_ in enumerate(rrows):
        if 'panic' in r_:
            c = byid[r_['id']]
            sig = {'family': 'robust', 'part': r_['kind']}
            if r_['kind'] == 'settings':
                sig['setting_before_section'] = c.get('setting_first', False)
            ctx.report(sig, '%s: %s on %r' % (r_['kind'], r_['panic'], (c.get('text') or bytes(c.get('bytes', [])).decode('latin1'))[:200]), {'part': r_['kind'], 'case': c})
    samples.append({'part': 'settings', 'text': rcases[3]['text']})
    # ---------------- 6 session
    fam = sessfam.Family(ctx, 'C09', 'garbage', ['P_C09'])
    confs = [dict(role='acc', bs=42, maxIn=4, maxOut=4), dict(role='init', bs=44, maxIn=4, maxOut=4, checkLatency=False),
             dict(role='acc', bs=41 if ctx.seed % 2 else 40, maxIn=4, maxOut=4)]
    if not quick:
        confs += [dict(role='init', bs=40 if ctx.seed % 2 else 41, maxIn=4, maxOut=4), dict(role='init', bs=50, maxIn=4, maxOut=4), dict(role='acc', bs=44, chunk=1, maxIn=4, maxOut=5)]
    for conf in confs:
        fam.model(conf, maxlen=30, switch_budget=10000 if quick else 200000, cover='class' if quick else 'edges')
    srows, viols, divs = fam.replay_and_validate()
    fam.judge(viols, divs)
    for r_ in fam.panics:
        m = r_['ev'].get('m', {})
        ctx.report({'family': 'robust', 'part': 'session', 'seqc': m.get('seqc'), 't': m.get('t')},
                   'session step panics: %s on %s' % (r_['panic'], sessfam.brief_ev(r_['ev'])), {'part': 'session', 'ev': r_['ev']})
    counts['session_steps'] = len(srows)
    samples.append({'part': 'session', 'ev': sessfam.brief_ev(srows[3]['ev'])})
    total = sum(counts.values())
    ctx.cov.update({
        'evaluations': total, 'distinct_nontrivial': counts['wire'] + counts['values'] + len(frows) + len(rrows) + len(fam.scripts),
        'rule': 'structured malformed inputs generated from the specification modules; distinct = distinct generated inputs (wire messages, value texts, streams, settings/dictionary texts, validation inputs, session scripts)',
        'per_part': counts, 'samples': samples, 'states': fam.states, 'transitions': fam.transitions,
        'traces_validated_against_impl': len(fam.scripts), 'exhaustive': False,
    })
    ctx.assumptions += ['random byte strings beyond the structured space are not explored (DESIGN 10): this is not a coverage-guided fuzzer',
                        'a hang is anything slower than 5 s per case']


def robust_cases(rng, quick):
    out = []
    sess = 'BeginString=FIX.4.2\nSenderCompID=A\nTargetCompID=B\n'
    kinds = {'blank': '\n', 'comment': '# c\n', 'default': '[DEFAULT]\n', 'session': '[SESSION]\n' , 'sessbody': sess, 'setting': 'K=V\n',
             'junk': 'no equals sign\n', 'emptykey': '=v\n', 'bracket': '[OTHER]\n', 'dupkey': 'K=1\nK=2\n'}
    names = sorted(kinds)
    for n in range(1, 5 if not quick else 4):
        for sq in itertools.product(names, repeat=n):
            out.append({'id': 's-' + '+'.join(sq), 'kind': 'settings', 'text': ''.join(kinds[k] for k in sq),
                        'setting_first': any(k in ('setting', 'sessbody', 'emptykey', 'dupkey') for k in sq[:1]) or
                        ((sq + ('x',))[0] in ('blank', 'comment') and len(sq) > 1 and sq[1] in ('setting', 'sessbody', 'emptykey', 'dupkey'))})
    # dictionaries: malformed specification trees
    good = fixgen.dict_xml('FIX', [8, 9, 35], [10], {'D': ('NewOrderSingle', [(11, True), ('group', 453, False, [(448, True), (447, False)])])})
    out.append({'id': 'd-good', 'kind': 'dict', 'text': good})
    muts = [good.replace("name='ClOrdID' required", "name='Nope' required"), good.replace("<group name='NoPartyIDs'", "<group name='Missing'"),
            good.replace("<components/>", "<components><component name='A'><component name='A' required='Y'/></component></components>"),
            good.replace("<components/>", "<components><component name='A'><component name='B' required='Y'/></component><component name='B'><component name='A' required='Y'/></component></components>")
                .replace("<field name='ClOrdID' required='Y'/>", "<component name='A' required='Y'/>"),
            good.replace("<field name='ClOrdID' required='Y'/>", "<component name='Ghost' required='Y'/>"),
            good.replace("number='11'", "number='x'"), good.replace("type='STRING'", "type='WEIRD'"), good.replace("major='4'", "major='x'"),
            good.replace("<header>", "<header"), good[:len(good) // 2], '', '<fix/>', '<fix type="FIX" major="4" minor="2"/>', 'not xml at all',
            good.replace("<group name='NoPartyIDs' required='N'>", "<group name='NoPartyIDs' required='N'><group name='NoPartyIDs' required='N'></group>"),
            good.replace("<messages>", "<messages><message msgcat='app' msgtype='D' name='Dup'/>"),
            good.replace("required='Y'", "required='?'"), good.replace("<trailer>", "").replace("</trailer>", "")]
    for i, m in enumerate(muts):
        out.append({'id': 'd-%d' % i, 'kind': 'dict', 'text': m})
    # validation of mutated messages against shipped dictionaries
    base44 = [(35, 'D'), (49, 'A'), (56, 'B'), (34, '2'), (52, '20240101-00:00:00'), (11, 'id'), (21, '1'), (55, 'IBM'), (54, '1'),
              (60, '20240101-00:00:00'), (38, '100'), (40, '1'), (453, '1'), (448, 'p'), (447, 'D'), (452, '1')]
    for spec, begin in (('FIX44', 'FIX.4.4'), ('FIX42', 'FIX.4.2'), ('FIXT:FIX50SP2', 'FIXT.1.1')):
        allf = [(8, begin), (9, '0')] + base44 + [(10, '000')]
        out.append({'id': 'v-%s-good' % spec, 'kind': 'validate', 'spec': spec, 'bytes': list(fixgen.raw_build(allf).encode('latin1'))})
        singles = list(mutate_fields(allf, rng))
        pick = singles if not quick else rng.sample(singles, 60)
        for name, fs in pick:
            out.append({'id': 'v-%s-%s' % (spec, name), 'kind': 'validate', 'spec': spec, 'bytes': list(fixgen.raw_build(fs).encode('latin1'))})
        for val in ['', 'x', '-1', '9' * 30, 'Y', '20240101', '1 2', ' ']:
            for tag in (38, 54, 60, 453, 452, 40, 34):
                fs = [(t, (val if t == tag else v)) for t, v in allf]
                out.append({'id': 'v-%s-%d=%s' % (spec, tag, val), 'kind': 'validate', 'spec': spec, 'bytes': list(fixgen.raw_build(fs).encode('latin1'))})
    return out


def replay(ctx, path):
    with open(path) as f:
        d = json.load(f)
    ctx.build()
    print(json.dumps(d['replay'])[:2000])
    raise common.Infra('C09 replays are the recorded inputs themselves (part + case); feed them to the matching vh driver')
