"""C07 - sequence numbers persist across connections and reset only when agreed.
Family "reset" of Session.tla; monitors C07_*."""
from lib import common, sessfam

LEVEL = 'model_checking'
PID = 'C07'
FAMILY = 'reset'
PROPS = ['P_C07']
BASE = [{'role': 'acc', 'bs': 42}, {'role': 'acc', 'bs': 44, 'resetSeqTime': True}, {'role': 'acc', 'bs': 42, 'schedule': True}, {'role': 'init', 'bs': 42, 'resetOnLogon': True}, {'role': 'acc', 'bs': 42, 'resetOnLogout': True}, {'role': 'init', 'bs': 44, 'resetOnDisconnect': True}]
ALT = [{'role': 'init', 'bs': 42, 'resetOnLogout': True}, {'role': 'init', 'bs': 42, 'schedule': True, 'maxIn': 2}, {'role': 'init', 'bs': 42, 'resetSeqTime': True, 'maxIn': 2}, {'role': 'init', 'bs': 44, 'resetOnDisconnect': True}, {'role': 'acc', 'bs': 44, 'resetOnLogon': True}, {'role': 'init', 'bs': 40, 'resetOnLogon': True}, {'role': 'init', 'bs': 42}, {'role': 'acc', 'bs': 41, 'resetOnDisconnect': True}, {'role': 'init', 'bs': 44, 'resetOnLogout': True}, {'role': 'acc', 'bs': 50, 'resetOnLogon': True, 'resetOnLogout': True, 'resetOnDisconnect': True}]


def configs(ctx):
    if ctx.tier == 'quick':
        return BASE + [ALT[(ctx.seed + i) % len(ALT)] for i in range(1)]
    return BASE + ALT


def run(ctx):
    sessfam.standard_run(ctx, PID, FAMILY, PROPS, configs(ctx), quick_budget=15000, thorough_budget=250000,
                         quick_bounds={'maxIn': 3, 'maxOut': 3, 'maxEp': 2}, thorough_bounds={'maxIn': 3, 'maxOut': 3, 'maxEp': 2},
                         statement='continuity, negotiated/configured resets, forward-only SequenceReset')


def replay(ctx, path):
    sessfam.standard_replay(ctx, PID, path)
