"""C20 - keep-alive: heartbeats, test requests and dead-peer disconnect.
Family "keep" of Session.tla; monitors C20_* (synchronous part; timer arming through the EventTimer hook)."""
from lib import common, sessfam

LEVEL = 'model_checking'
PID = 'C20'
FAMILY = 'keep'
PROPS = ['P_C20']
BASE = [{'role': 'acc', 'bs': 42}, {'role': 'init', 'bs': 42}, {'role': 'acc', 'bs': 42, 'hbOverride': True}]
ALT = [{'role': 'acc', 'bs': 44, 'chunk': 2}, {'role': 'init', 'bs': 40}, {'role': 'acc', 'bs': 50}, {'role': 'init', 'bs': 44, 'chunk': 1}]


def configs(ctx):
    if ctx.tier == 'quick':
        return BASE + [ALT[(ctx.seed + i) % len(ALT)] for i in range(min(2, len(ALT)))]
    return BASE + ALT


def run(ctx):
    sessfam.standard_run(ctx, PID, FAMILY, PROPS, configs(ctx), quick_budget=15000, thorough_budget=250000,
                         quick_bounds={'maxIn': 4, 'maxOut': 4}, thorough_bounds={'maxIn': 4, 'maxOut': 5},
                         statement='TestReqID echo, heartbeat on idle, test request on silence, disconnect on second silence, inbound cancels, timer arming, acceptor interval')


def replay(ctx, path):
    sessfam.standard_replay(ctx, PID, path)
