"""C06 - messages failing session-level checks never reach the application.
Family "gate" of Session.tla; monitors C06_*."""
from lib import common, sessfam

LEVEL = 'model_checking'
PID = 'C06'
FAMILY = 'gate'
PROPS = ['P_C06']
BASE = [{'role': 'acc', 'bs': 42}, {'role': 'acc', 'bs': 42, 'checkLatency': False}]
ALT = [{'role': 'init', 'bs': 44}, {'role': 'acc', 'bs': 40}, {'role': 'init', 'bs': 41, 'checkLatency': False}, {'role': 'acc', 'bs': 50}, {'role': 'init', 'bs': 42}, {'role': 'acc', 'bs': 44, 'chunk': 2}]


def configs(ctx):
    if ctx.tier == 'quick':
        return BASE + [ALT[(ctx.seed + i) % len(ALT)] for i in range(min(2, len(ALT)))]
    return BASE + ALT


def run(ctx):
    sessfam.standard_run(ctx, PID, FAMILY, PROPS, configs(ctx), quick_budget=15000, thorough_budget=250000,
                         quick_bounds={'maxIn': 6, 'maxOut': 3, 'maxEp': 0}, thorough_bounds={'maxIn': 6, 'maxOut': 4, 'maxEp': 0},
                         statement='gate on FromApp/FromAdmin/logon, mandated reactions, RefSeqNum, reversed routing')


def replay(ctx, path):
    sessfam.standard_replay(ctx, PID, path)
