"""C03 - a ResendRequest is answered by an exact, contiguous, well-formed replay.
Family "resend" of Session.tla; monitors C03_*."""
from lib import common, sessfam

LEVEL = 'model_checking'
PID = 'C03'
FAMILY = 'resend'
PROPS = ['P_C03']
BASE = [{'role': 'acc', 'bs': 42}, {'role': 'acc', 'bs': 42, 'persist': False}, {'role': 'acc', 'bs': 44, 'dd': True}, {'role': 'acc', 'bs': 42, 'refreshOnLogon': True}, {'role': 'init', 'bs': 42, 'resetSeqTime': True, 'maxEp': 2}]
ALT = [{'role': 'init', 'bs': 44}, {'role': 'acc', 'bs': 40}, {'role': 'init', 'bs': 41, 'persist': False}, {'role': 'acc', 'bs': 50}, {'role': 'init', 'bs': 42}]


def configs(ctx):
    if ctx.tier == 'quick':
        return BASE + [ALT[(ctx.seed + i) % len(ALT)] for i in range(1)]
    return BASE + ALT


def run(ctx):
    sessfam.standard_run(ctx, PID, FAMILY, PROPS, configs(ctx), quick_budget=15000, thorough_budget=250000,
                         quick_bounds={'maxIn': 4, 'maxOut': 4, 'maxEp': 1}, thorough_bounds={'maxIn': 4, 'maxOut': 5, 'maxEp': 1},
                         stores=['memory', ('filenosync', lambda s_: s_['cfg'].get('refreshOnLogon') or s_['cfg'].get('resetSeqTime'))],
                         statement='replay run all PossDup, coverage exactly [b, min(e,last)], replays intact under their own number, gap fills for the rest')


def replay(ctx, path):
    sessfam.standard_replay(ctx, PID, path)
