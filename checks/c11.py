"""C11 - parsing exposes exactly what is on the wire and rejects mis-framed messages.

M: TLC checks on Wire.tla that the section classification is a partition and that dictionary-only
   header/trailer tags move only under a transport dictionary.
R: vh wire parses every generated message with no dictionary, an application dictionary, and
   transport+application dictionaries (synthetic dictionaries that declare one extra header and one
   extra trailer field), and reports what the getters, the field order kept for validation and
   Message.Bytes() expose.
V: TLC judges every line with Wire!Fails against the ground-truth field list (WireTrace.tla).
"""
import itertools
import json
import os
import random
from concurrent.futures import ThreadPoolExecutor

from lib import common, fixgen

LEVEL = 'model_checking'
HDR = [49, 56, 34, 52, 5001, 1128, 50, 115, 43, 369]       # 115, 43, 369: hard-coded header tags the synthetic transport dictionary does not declare
BODY = [11, 55, 58, 9999, 38, 1]
TRL = [93, 5002]
VALS = ['a', 'x=y', '1', 'IBM', 'v' * 60, 'caf\xe9', ' ', '=ACCT', '==', '=']


def skeletons(rng, quick):
    out = []
    hs = [c for n in range(0, 4) for c in itertools.combinations(HDR, n)]
    bs = [c for n in range(0, 4) for c in itertools.combinations(BODY, n)]
    ts = [c for n in range(0, 3) for c in itertools.combinations(TRL, n)]
    for h in hs:
        for b in bs:
            for t in ts:
                out.append((h, b, t))
    rng.shuffle(out)
    return out[:400 if quick else 4000]


def gen_cases(rng, quick):
    cases = []
    for (h, b, t) in skeletons(rng, quick):
        xml = rng.random() < 0.25
        fields = [(35, 'D')]
        hh = list(h)
        rng.shuffle(hh)
        for tag in hh:
            fields.append((tag, rng.choice(VALS)))
        xmlpair = []
        if xml:
            data = rng.choice(['<a/>', '<x>' + fixgen.SOH + '</x>', 'd=1' + fixgen.SOH + '8=9', '<long>' + 'z' * 40 + '</long>'])
            xmlpair = [(212, str(len(data))), (213, data)]
        xml_late = xml and rng.random() < 0.5          # XMLData (header fields) after body fields, or right after a group
        if xml and not xml_late:
            fields += xmlpair
        bb = list(b)
        rng.shuffle(bb)
        items = [[(tag, rng.choice(VALS))] for tag in bb]
        grp = rng.random() < 0.3
        if grp:
            # a repeating group the application dictionary defines (identical entries: without a dictionary they are
            # repeated plain fields)
            items.insert(rng.randint(0, len(items)), [(453, '2'), (448, 'P'), (447, 'D'), (452, '1'), (448, 'P'), (447, 'D'), (452, '1')])
        if xml_late:
            gi = [i for i, it in enumerate(items) if it[0][0] == 453]
            pos = gi[0] + 1 if gi and rng.random() < 0.7 else rng.randint(0, len(items))
            items.insert(pos, xmlpair)
        gidx = []
        for it in items:
            for (tg, v) in it:
                fields.append((tg, v))
                if tg in (448, 447, 452):
                    gidx.append(len(fields) + 2)            # position in the whole message (8 and 9 come first)
        for tag in t:
            fields.append((tag, rng.choice(['1', 'sig'])))
        for dict_ in ('none', 'app', 'fixt'):
            variants = [('ok', 0)]
            variants += [('ok', d) for d in rng.sample([1, -1, 9, -9, 10, 100], 2)]
            variants += [(l, 0) for l in rng.sample(['swap12', 'swap23', 'swap13', 'drop8', 'drop9', 'drop35', 'dup8', 'extra0'], 2)]
            for lead, delta in variants:
                allf = [(8, 'FIX.4.2' if dict_ != 'fixt' else 'FIXT.1.1'), (9, '0')] + fields + [(10, '000')]
                if lead == 'swap12':
                    allf[0], allf[1] = allf[1], allf[0]
                elif lead == 'swap23':
                    allf[1], allf[2] = allf[2], allf[1]
                elif lead == 'swap13':
                    allf[0], allf[2] = allf[2], allf[0]
                elif lead == 'drop8':
                    del allf[0]
                elif lead == 'drop9':
                    del allf[1]
                elif lead == 'drop35':
                    del allf[2]
                elif lead == 'dup8':
                    allf.insert(1, allf[0])
                elif lead == 'extra0':
                    allf.insert(0, (49, 'X'))
                raw = fixgen.raw_build(allf, delta=delta)
                # ground truth of the wire fields (with the computed 9 and 10 values)
                truth = []
                i = 0
                rb = raw
                for (tg, v) in allf:
                    truth.append(None)
                cases.append({'lead': lead if lead == 'ok' else 'bad', 'leadkind': lead, 'delta': delta, 'dict': dict_, 'xml': xml,
                              'gidx': gidx if lead == 'ok' else [],
                              'allf': [[int(tg), v] for tg, v in allf], 'bytes': list(raw.encode('latin1'))})
    return cases


def truth_fields(case):
    """the (tag, value) list on the wire, with the computed BodyLength / CheckSum values filled in"""
    raw = bytes(case['bytes']).decode('latin1')
    out = []
    pos = 0
    for tg, v in case['allf']:
        pre = '%d=' % tg
        assert raw.startswith(pre, pos), (raw[pos:pos + 20], pre)
        if tg in (9, 10):
            end = raw.index(fixgen.SOH, pos)
            val = raw[pos + len(pre):end]
        else:
            val = v
            end = pos + len(pre) + len(v.encode('latin1'))
        out.append([tg, esc(val)])
        pos = end + 1
    return out


def esc(v):
    return ''.join(c if 0x20 <= ord(c) <= 0x7e and c != '\\' else '\\x%02x' % ord(c) for c in v)


def run(ctx):
    quick = ctx.tier == 'quick'
    rng = random.Random(ctx.seed)
    ctx.build()
    mod = '---- MODULE Wire_MC ----\nEXTENDS Wire\nMCTags == HardHeader \\cup HardTrailer \\cup DictHeader \\cup DictTrailer \\cup {11, 55, 58, 9999, 453, 1}\nMCDicts == {"none", "app", "fixt"}\n====\n'
    cfg = 'SPECIFICATION Spec\nCONSTANTS\n TagsM <- MCTags\n Dicts <- MCDicts\nINVARIANTS OneSection DictOnlyMatters\nCHECK_DEADLOCK FALSE\n'
    r = ctx.tlc('Wire_MC.tla', 'w.cfg', workers=4, timeout=600, files={'Wire_MC.tla': mod, 'w.cfg': cfg})
    ctx.tlc_ok(r, 'Wire M')
    tdd = os.path.join(ctx.scratch, 'tdd.xml')
    add = os.path.join(ctx.scratch, 'add.xml')
    with open(tdd, 'w') as f:
        f.write(fixgen.dict_xml('FIXT', [8, 9, 35, 49, 56, 34, 52, 50, 1128, 212, 213, 5001], [93, 89, 5002, 10], {}, fixt=True))
    with open(add, 'w') as f:
        f.write(fixgen.dict_xml('FIX', [8, 9, 35, 49, 56, 34, 52, 50, 212, 213], [93, 89, 10],
                                {'D': ('NewOrderSingle', [(11, False), (55, False), (58, False), (38, False), (1, False),
                                                          ('group', 453, False, [(448, False), (447, False), (452, False)])])}))
    cases = gen_cases(rng, quick)
    for c in cases:
        c['fields'] = truth_fields(c)
    cp = os.path.join(ctx.scratch, 'cases.ndjson')
    common.ndjson_write(cp, [{k: v for k, v in c.items() if k != 'allf'} for c in cases])
    tp = os.path.join(ctx.scratch, 'trace.ndjson')
    p = ctx.run_vh(['wire', '-cases', cp, '-out', tp, '-tdd', tdd, '-add', add], timeout=3000)
    if p.returncode != 0:
        raise common.Infra('vh wire failed: ' + p.stderr[-1500:])
    rows = common.ndjson_read(tp)
    for r_ in rows:
        if 'panic' in r_:
            ctx.report({'family': 'wire', 'kind': 'panic', 'lead': r_['leadkind'], 'xml': r_['xml']},
                       'ParseMessage panics (%s): lead=%s delta=%s fields=%s' % (r_['panic'], r_['leadkind'], r_['delta'], r_['fields'][:6]), {'case': r_})
    clean = [r_ for r_ in rows if 'panic' not in r_]
    size = (len(clean) + 7) // 8
    mism = []
    with ThreadPoolExecutor(max_workers=8) as ex:
        for m in ex.map(lambda ch: validate(ctx, ch), [clean[i:i + size] for i in range(0, len(clean), size)]):
            mism += m
    for ch, m in mism:
        row = ch[int(m[1]) - 1]
        for c in sorted(m[2]):
            sig = {'family': 'wire', 'clause': c, 'xml': row['xml'], 'dict': row['dict'], 'lead': row['leadkind'], 'delta0': row['delta'] == 0}
            ctx.report(sig, 'C11 clause %s: dict=%s lead=%s delta=%s xml=%s fields=%s observed ok=%s err=%s hdr=%s body=%s trl=%s' % (
                c, row['dict'], row['leadkind'], row['delta'], row['xml'], row['fields'], row['obs']['ok'], row['obs'].get('err'),
                row['obs']['hdr'], row['obs']['body'], row['obs']['trl']), {'case': row})
    negative_control(ctx, clean)
    ctx.cov.update({
        'states': r['distinct'], 'transitions': max(r['generated'], 1), 'traces_validated_against_impl': len(clean),
        'evaluations': len(rows), 'distinct_nontrivial': len(set((json.dumps(c['fields']), c['dict'], c['leadkind'], c['delta']) for c in cases)),
        'rule': 'one case = one wire message x dictionary setting; well-formed skeletons over header/body/trailer tag subsets (with XMLData, dictionary-only header/trailer tags, user-defined tags) plus single corruptions of BodyLength and of the leading field order',
        'samples': [{'bytes': bytes(cases[0]['bytes']).decode('latin1').replace(fixgen.SOH, '|'), 'dict': cases[0]['dict']},
                    {'fields': rows[-1]['fields'], 'obs_ok': rows[-1]['obs']['ok']}],
        'exhaustive': False,
    })
    ctx.assumptions += ['no tag appears twice in a generated message; groups are covered by C13']


def validate(ctx, rows):
    content = '\n'.join(json.dumps(r, separators=(',', ':')) for r in rows) + '\n'
    mod = '---- MODULE WireTraceX ----\nEXTENDS WireTrace\nMCTags == {8}\nMCDicts == {"none"}\n====\n'
    cfg = 'SPECIFICATION TraceSpec\nCONSTANTS\n TagsM <- MCTags\n Dicts <- MCDicts\nPOSTCONDITION AllConsumed\nCHECK_DEADLOCK FALSE\n'
    r = ctx.tlc('WireTraceX.tla', 'tr.cfg', workers=1, timeout=3000, files={'trace.ndjson': content, 'tr.cfg': cfg, 'WireTraceX.tla': mod})
    if r['rc'] != 0 or 'Model checking completed. No error has been found.' not in r['out']:
        raise common.Infra('WireTrace did not run to completion:\n' + r['out'][-2500:])
    return [(rows, m) for m in common.printed(r['out'], 'MISMATCH')]


def negative_control(ctx, rows):
    import copy
    head = copy.deepcopy([r_ for r_ in rows if r_['obs']['ok'] and r_['obs']['body']][:8])
    head[2]['obs']['body'][0][1] += 'X'
    m = validate(ctx, head)
    if not any(int(x[1][1]) == 3 and 'sections' in x[1][2] for x in m):
        raise common.Infra('negative control failed: a corrupted body value was accepted')
    ctx.notes.append('negative control: corrupted body value rejected by WireTrace (sections)')


def replay(ctx, path):
    with open(path) as f:
        d = json.load(f)
    ctx.build()
    raise common.Infra('use the recorded case in %s: bytes field; replay through vh wire' % path)
