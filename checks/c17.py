"""C17 - a crash never leaves the persistent store ahead of or without its messages.

Fault enumeration on the real file store, judged by the specification:
R: vh crash runs an operation history on a real file store (FileStoreSync on) and, through the
   build-tagged crash-point hook, snapshots the directory after every file write / sync / remove /
   open of the interrupted operation.  From consecutive snapshots it synthesises the crash images:
   process crash (completed writes kept, the in-flight write cut at representative or all bytes) and
   power loss (only synced data plus any prefix of unsynced writes), reopens each with the real
   factory, reads everything back and performs a further save.
V: TLC computes the abstract store before/after the interrupted operation with Store!Apply and
   evaluates the sentences of C17 on every image (CrashTrace.tla).
SQL: a wrapping database/sql driver fails the insert, the update or the commit of
   SaveMessageAndIncrNextSenderMsgSeqNum on sqlite3.
"""
import json
import os
import random
import re
from concurrent.futures import ThreadPoolExecutor

from lib import common

LEVEL = 'fault_enumeration'


def histories(rng, quick):
    """operation histories as the session produces them (SaveIncr under the next outbound number), with
    counters that cross digit roll-overs"""
    cases = []
    ops_menu = ['SaveIncr', 'SaveIncr', 'IncrTarget', 'SetSender', 'SetTarget', 'Save', 'Reset', 'Refresh', 'IncrSender']

    def sim(ops):
        ns, nt, top = 1, 1, 0
        out = []
        for k in ops:
            if k == 'SaveIncr':
                n = max(ns, top + 1)
                if n != ns:
                    out.append({'k': 'SetSender', 'v': n})
                    ns = n
                out.append({'k': 'SaveIncr', 'n': n, 'm': 'm%d' % rng.randint(1, 5)})
                top = n
                ns += 1
            elif k == 'Save':
                n = max(ns, top + 1)
                out.append({'k': 'Save', 'n': n, 'm': 'm%d' % rng.randint(1, 5)})
                top = n
            elif k == 'IncrTarget':
                out.append({'k': k})
                nt += 1
            elif k == 'IncrSender':
                out.append({'k': k})
                ns += 1
            elif k == 'SetSender':
                v = rng.choice([9, 99, 10, 3])
                if v <= top:
                    v = top + 1
                out.append({'k': k, 'v': v})
                ns = v
            elif k == 'SetTarget':
                v = rng.choice([9, 99, 10, 3])
                out.append({'k': k, 'v': v})
                nt = v
            elif k == 'Reset':
                out.append({'k': k})
                ns, nt, top = 1, 1, 0
            else:
                out.append({'k': k})
        return out, max(top, 0)
    fixed = [['SaveIncr'], ['SaveIncr', 'SaveIncr'], ['SetSender', 'SaveIncr'], ['SaveIncr', 'IncrTarget'], ['SetTarget', 'IncrTarget'],
             ['SaveIncr', 'Reset'], ['SaveIncr', 'Refresh'], ['SaveIncr', 'SaveIncr', 'SaveIncr'], ['Save', 'SaveIncr'], ['IncrSender'],
             ['SaveIncr', 'Reset', 'SaveIncr']]
    n_rand = 40 if quick else 600
    seqs = fixed + [[rng.choice(ops_menu) for _ in range(rng.randint(1, 4))] for _ in range(n_rand)]
    # counters just below a digit roll-over
    for v in (9, 99, 999):
        seqs.append([('SetSenderTo', v), 'SaveIncr'])
        seqs.append([('SetTargetTo', v), 'IncrTarget'])
    for i, sq in enumerate(seqs):
        pre = []
        names = []
        for k in sq:
            if isinstance(k, tuple):
                pre.append({'k': 'SetSender' if k[0] == 'SetSenderTo' else 'SetTarget', 'v': k[1]})
            else:
                names.append(k)
        ops, top = sim(names)
        if pre:
            # re-simulate with the forced counter
            ns = pre[0]['v'] if pre[0]['k'] == 'SetSender' else 1
            ops = list(pre)
            for k in names:
                if k == 'SaveIncr':
                    ops.append({'k': 'SaveIncr', 'n': ns, 'm': 'm1'})
                    top = ns
                    ns += 1
                else:
                    ops.append({'k': k})
        if not ops:
            continue
        cases.append({'id': 'h%d' % i, 'hist': ops[:-1], 'op': ops[-1], 'maxn': min(top + 2, 12) if top < 100 else 3})
    # large counters make per-number interrogation long: cap maxn, the clauses only look at saved numbers
    for c in cases:
        tops = [o['n'] for o in c['hist'] + [c['op']] if 'n' in o]
        c['maxn'] = (max(tops) if tops else 0) + 2
        if c['maxn'] > 40:
            c['maxn'] = 40
    return [c for c in cases if all(o.get('n', 0) <= 38 for o in c['hist'] + [c['op']])]


FS_CFG = '''SPECIFICATION Spec
CONSTANTS
  Protocol = "%s"
  MaxOps = %d
  Ids = {"m1", "m2"}
INVARIANT %s
CHECK_DEADLOCK FALSE
'''


def design_model(ctx, quick):
    """M: FileStore.tla.  The as-built protocol: every class of crash image (operation, crash point, mode) that
    breaks a sentence of C17 is listed; the repaired protocol: the sentences hold (they are satisfiable in
    this crash model).  Returns (classes, states, transitions)."""
    n = 4 if quick else 5
    a = ctx.tlc('FileStore.tla', 'a.cfg', workers=8, timeout=3000, files={'a.cfg': FS_CFG % ('asbuilt', n, 'Report')})
    ctx.tlc_ok(a, 'FileStore M (as built)')
    classes = set()
    for m in common.printed(a['out'], 'VIOL'):
        for c in m[4]:
            classes.add((m[1], m[2], m[3], c))
    if not classes:
        raise common.Infra('FileStore.tla (as built) reports no violating crash image: the model lost the known findings')
    r = ctx.tlc('FileStore.tla', 'r.cfg', workers=8, timeout=3000, files={'r.cfg': FS_CFG % ('repaired', n, 'C17_Holds')})
    ctx.tlc_ok(r, 'FileStore M (repaired protocol)')
    return classes, a['distinct'] + r['distinct'], a['generated'] + r['generated']


def run(ctx):
    quick = ctx.tier == 'quick'
    rng = random.Random(ctx.seed)
    ctx.build()
    model_classes, mstates, mtrans = design_model(ctx, quick)
    cases = histories(rng, quick)
    cp = os.path.join(ctx.scratch, 'cases.ndjson')
    common.ndjson_write(cp, cases)
    tp = os.path.join(ctx.scratch, 'trace.ndjson')
    p = ctx.run_vh(['crash', '-cases', cp, '-out', tp, '-seed', str(ctx.seed)] + ([] if quick else ['-allcuts']), timeout=6000)
    if p.returncode != 0:
        raise common.Infra('vh crash failed: ' + p.stderr[-2000:])
    rows = common.ndjson_read(tp)
    for r_ in rows:
        if 'panic' in r_['obs']:
            ctx.report({'family': 'crash', 'clause': 'panic', 'op': r_['op']['k'], 'point': r_['point']}, 'reopen panics: %s' % r_['obs']['panic'], {'case': r_})
    size = (len(rows) + 15) // 16
    chunks = [rows[i:i + size] for i in range(0, len(rows), size)]
    mism = []
    with ThreadPoolExecutor(max_workers=8) as ex:
        for m in ex.map(lambda ch: validate(ctx, ch), chunks):
            mism += m
    for ch, m in mism:
        row = ch[int(m[1]) - 1]
        for c in sorted(m[2]):
            sig = signature(row, c)
            ctx.report(sig, 'C17 clause %s: after %s, %s interrupted at %s (%s, %s of %s bytes of %s) -> reopen=%s ns=%s nt=%s per=%s whole=%s further=%s %s' % (
                c, json.dumps(row['hist']), json.dumps(row['op']), row['point'], row['mode'], row['cut'], row['cutlen'], row['file'],
                row['obs']['reopen'], row['obs']['ns'], row['obs']['nt'], [(x['n'], x['ok'], x['ids']) for x in row['obs']['per']][:6],
                (row['obs']['whole']['ok'], row['obs']['whole']['ids'][:6]), row['obs']['further'], row['obs'].get('reopenErr', '')),
                {'case': {'id': row['id'], 'hist': row['hist'], 'op': row['op'], 'maxn': len(row['obs']['per'])}, 'image': {k: row[k] for k in ('mode', 'point', 'cut', 'cutlen', 'file')}})
    # binding of the design model: (1) every operation passes exactly the crash points the model gives it
    seqs = {}
    for r_ in rows:
        if r_['mode'] == 'process' and r_['cutlen'] == 0:
            seqs.setdefault(r_['id'], {'k': r_['op']['k'], 'points': []})['points'].append(r_['point'])
    srows_ = [{'k': v['k'], 'points': [p_ for p_ in v['points'] if p_ != 'end'], 'id': k} for k, v in seqs.items()]
    mod_ = '---- MODULE FileStoreTraceX ----\nEXTENDS FileStoreTrace\n====\n'
    cfg_ = 'SPECIFICATION TraceSpec\nCONSTANTS\n Protocol = "asbuilt"\n MaxOps = 1\n Ids = {"m1"}\nPOSTCONDITION AllConsumed\nCHECK_DEADLOCK FALSE\n'
    v_ = ctx.tlc('FileStoreTraceX.tla', 'fst.cfg', workers=1, timeout=1200,
                 files={'trace.ndjson': '\n'.join(json.dumps(x) for x in srows_) + '\n', 'fst.cfg': cfg_, 'FileStoreTraceX.tla': mod_})
    if v_['rc'] != 0 or 'Model checking completed. No error has been found.' not in v_['out']:
        raise common.Infra('FileStoreTrace did not run to completion:\n' + v_['out'][-2500:])
    for m in common.printed(v_['out'], 'MISMATCH'):
        row = srows_[int(m[1]) - 1]
        ctx.diverge('the real %s passes the crash points %s, the design model (FileStore.tla) has %s' % (row['k'], row['points'], list(m[3])))
    # (2) every class of violating image found on the real store is one the design model predicts
    real_classes = set()
    for ch, m in mism:
        row = ch[int(m[1]) - 1]
        for c in m[2]:
            if c != 'reopens':
                real_classes.add((row['op']['k'], row['point'], row['mode'], c))
    unpredicted = sorted(real_classes - model_classes)
    for u in unpredicted:
        ctx.diverge('crash images of class %s violate C17 on the real store, but not in the design model of the as-built protocol' % (u,))
    ctx.notes.append('design model (as built): %d violating image classes; real store: %d, of which %d are predicted by the model; predicted but not produced by this enumeration: %d' % (
        len(model_classes), len(real_classes), len(real_classes & model_classes), len(model_classes - real_classes)))
    # system-call audit of syncs
    arows = audit(ctx, cp)
    for ch, m in validate(ctx, arows, kind='Audit'):
        row = ch[int(m[1]) - 1]
        ctx.report({'family': 'crash', 'clause': 'syncedOnReturn', 'op': row['op'], 'files': sorted(set(row['unsynced']))},
                   'C17 (power loss): %s returned with data written to %s not synced afterwards (history %s, operation %d; written %s, synced %s)' % (
                       row['op'], row['unsynced'], row['id'], row['i'], row['written'], row['synced']), {'audit': row})
    # SQL
    sp = os.path.join(ctx.scratch, 'sql.ndjson')
    p = ctx.run_vh(['sqlfail', '-out', sp, '-repo', common.REPO], timeout=600)
    if p.returncode != 0:
        raise common.Infra('vh sqlfail failed: ' + p.stderr[-1500:])
    srows = common.ndjson_read(sp)
    for ch, m in validate(ctx, srows, kind='Sql'):
        row = ch[int(m[1]) - 1]
        ctx.report({'family': 'crash', 'store': 'sql', 'clause': 'atomic', 'fail': row['fail']}, 'SQL save-and-increment not atomic: %s' % json.dumps(row), {'sql': row})
    negative_control(ctx, rows)
    ctx.cov.update({
        'states': mstates, 'transitions': mtrans, 'model_violation_classes': len(model_classes), 'real_violation_classes': len(real_classes),
        'operations_bound_to_model_steps': len(srows_),
        'evaluations': len(rows) + len(srows),
        'distinct_nontrivial': len(set((json.dumps(r_['hist']), json.dumps(r_['op']), r_['mode'], r_['point'], r_['cut'], r_['file']) for r_ in rows)),
        'rule': 'one case = one crash image (history, interrupted operation, crash point, crash mode, cut) reopened by the real store; SQL: one injected statement failure; distinct images counted',
        'histories': len(cases), 'images_process': sum(1 for r_ in rows if r_['mode'] == 'process'), 'images_power': sum(1 for r_ in rows if r_['mode'] == 'power'),
        'crash_points_seen': sorted(set(r_['point'] for r_ in rows)), 'sql_cases': len(srows),
        'audited_operations': len(arows), 'audited_operations_writing': sum(1 for r_ in arows if r_['written']),
        'audited_files': sorted(set(f for r_ in arows for f in r_['written'])),
        'samples': [{k: rows[3][k] for k in ('hist', 'op', 'mode', 'point', 'cut', 'file')}, {k: rows[-1][k] for k in ('hist', 'op', 'mode', 'point', 'cut', 'file')}],
        'exhaustive': False, 'traces_validated_against_impl': len(rows),
    })
    ctx.assumptions += ['a process crash keeps completed writes and cuts the in-flight write at a byte; power loss keeps synced data plus a prefix of each unsynced write',
                        'file removals and creations are treated as immediately durable (directory syncs are not modelled)',
                        'which data is synced inside an operation is taken from the crash-point names; that every file written by an operation has been synced after its last write when the operation returns is checked on the system calls of the real store (strace)',
                        'quick tier: the in-flight write is cut at class representatives (first byte, middle, all but one; every byte for counters and index lines)']


def ns_after(hist):
    ns = 1
    for o in hist:
        k = o['k']
        if k == 'SetSender':
            ns = o['v']
        elif k in ('IncrSender', 'SaveIncr'):
            ns += 1
        elif k == 'Reset':
            ns = 1
    return ns


def signature(row, clause):
    op = row['op']['k']
    digits = None
    if row['file'] in ('senderseqnums', 'targetseqnums'):
        digits = 'multi' if row['cutlen'] > 1 else 'single'
    return {'family': 'crash', 'clause': clause, 'op': op, 'mode': row['mode'], 'point': row['point'].split(':')[0] + ':' + row['point'].split(':')[1] if ':' in row['point'] else row['point'],
            'file': row['file'].split(':')[0].strip() if row['mode'] == 'process' else 'power', 'cutclass': row['cutclass'], 'digits': digits,
            'sender_counter_moved': bool(row['obs']['reopen']) and row['obs']['ns'] != ns_after(row['hist'])}


_call = re.compile(r'^(\d+)\s+(write|pwrite64|fsync|fdatasync)\((\d+)<([^>]*)>(.*)$')
_resumed = re.compile(r'^(\d+)\s+<\.\.\. (write|pwrite64|fsync|fdatasync) resumed>(.*)$')


def audit(ctx, cases_path):
    """run the histories under strace and list, per operation, the store files written and the files
    synced after their last write"""
    st = os.path.join(ctx.scratch, 'strace.txt')
    import subprocess
    p = subprocess.run(['strace', '-f', '-y', '-s', '64', '-e', 'trace=write,pwrite64,fsync,fdatasync', '-o', st,
                        ctx.vh, 'crash', '-audit', '-cases', cases_path, '-out', os.path.join(ctx.scratch, 'audit_unused.ndjson')],
                       capture_output=True, text=True, timeout=3000)
    if p.returncode != 0:
        raise common.Infra('strace / vh crash -audit failed (%d): %s' % (p.returncode, p.stderr[-800:]))
    rows = []
    cur = None
    pending = {}
    with open(st, errors='replace') as f:
        for line in f:
            m = _call.match(line)
            if m:
                pid, call, fd, path, rest = m.groups()
                if 'unfinished' in rest:
                    pending[(pid, call)] = path
                    continue
                if not rest.rstrip().endswith(tuple('0123456789')) or ' = -1' in rest:
                    continue
            else:
                m2 = _resumed.match(line)
                if not m2:
                    continue
                pid, call, rest = m2.groups()
                path = pending.pop((pid, call), None)
                if path is None or ' = -1' in rest:
                    continue
            if call in ('write', 'pwrite64') and 'VMARK ' in line:
                parts = line.split('"')[1].replace('\\n', '').split()
                if parts[1] == 'B':
                    cur = {'id': parts[2], 'i': int(parts[3]), 'op': parts[4], 'events': []}
                elif cur is not None:
                    last_write = {}
                    synced_after = set()
                    for k, (c, suf) in enumerate(cur['events']):
                        if c == 'w':
                            last_write[suf] = k
                            synced_after.discard(suf)
                        else:
                            synced_after.add(suf)
                    written = sorted(last_write)
                    rows.append({'id': cur['id'], 'i': cur['i'], 'op': cur['op'], 'written': written, 'synced': sorted(synced_after),
                                 'unsynced': [s_ for s_ in written if s_ not in synced_after]})
                    cur = None
                continue
            if cur is None or '/live/' not in path:
                continue
            suf = path.rsplit('.', 1)[-1]
            cur['events'].append(('w' if call in ('write', 'pwrite64') else 's', suf))
    if not rows or not any(r_['written'] for r_ in rows):
        raise common.Infra('system-call audit saw no store writes (strace output not understood)')
    return rows


def validate(ctx, rows, kind=None):
    sql = kind == 'Sql'
    content = '\n'.join(json.dumps(r, separators=(',', ':')) for r in rows) + '\n'
    mod = '---- MODULE CrashTraceX ----\nEXTENDS CrashTrace\nSqlStep == /\\ l <= Len(Trace) /\\ l\' = l + 1 /\\ UNCHANGED <<store, last>>\n' \
          '           /\\ LET bad == SqlFails(Trace[l]) IN IF bad = {} THEN TRUE ELSE PrintT(<<"MISMATCH", l, bad>>)\n' \
          'SqlSpec == TraceInit /\\ [][SqlStep]_<<l, store, last>>\n' \
          'AuditStep == /\\ l <= Len(Trace) /\\ l\' = l + 1 /\\ UNCHANGED <<store, last>>\n' \
          '           /\\ LET bad == AuditFails(Trace[l]) IN IF bad = {} THEN TRUE ELSE PrintT(<<"MISMATCH", l, bad>>)\n' \
          'AuditSpec == TraceInit /\\ [][AuditStep]_<<l, store, last>>\n====\n'
    cfg = 'SPECIFICATION %s\nCONSTANTS\n SIDs = {"s1"}\n MaxCtr = 1000\n MaxKeyN = 1000\n Bodies = {"m1"}\n MaxCt = 100\nPOSTCONDITION AllConsumed\nCHECK_DEADLOCK FALSE\n' % ((kind + 'Spec') if kind else 'TraceSpec')
    r = ctx.tlc('CrashTraceX.tla', 'tr.cfg', workers=1, timeout=3000, files={'trace.ndjson': content, 'tr.cfg': cfg, 'CrashTraceX.tla': mod})
    if r['rc'] != 0 or 'Model checking completed. No error has been found.' not in r['out']:
        raise common.Infra('CrashTrace did not run to completion:\n' + r['out'][-2500:])
    return [(rows, m) for m in common.printed(r['out'], 'MISMATCH')]


def negative_control(ctx, rows):
    import copy
    head = copy.deepcopy([r_ for r_ in rows if r_['obs']['reopen'] and r_['point'] == 'end'][:5])
    head[1]['obs']['ns'] += 5
    m = validate(ctx, head)
    if not any(int(x[1][1]) == 2 and 'countersBeforeOrAfter' in x[1][2] for x in m):
        raise common.Infra('negative control failed: a recovered counter that is neither before nor after was accepted')
    ctx.notes.append('negative control: wrong recovered counter rejected by CrashTrace (countersBeforeOrAfter)')


def replay(ctx, path):
    with open(path) as f:
        d = json.load(f)
    ctx.build()
    cp = os.path.join(ctx.scratch, 'cases.ndjson')
    common.ndjson_write(cp, [d['replay']['case']])
    tp = os.path.join(ctx.scratch, 'trace.ndjson')
    p = ctx.run_vh(['crash', '-cases', cp, '-out', tp, '-allcuts'])
    rows = common.ndjson_read(tp)
    img = d['replay'].get('image', {})
    rows = [r_ for r_ in rows if not img or all(r_[k] == v for k, v in img.items())] or rows
    for ch, m in validate(ctx, rows):
        row = ch[int(m[1]) - 1]
        for c in sorted(m[2]):
            ctx.report(signature(row, c), 'clause %s at %s cut %s' % (c, row['point'], row['cut']), d['replay'])
    ctx.cov.update({'evaluations': len(rows), 'distinct_nontrivial': max(2, len(rows)), 'rule': 'replay', 'samples': [rows[0]['point']]})
