"""C08 - application traffic flows only inside a completed logon.
Family "life" of Session.tla; monitors C08_*."""
from lib import common, sessfam

LEVEL = 'model_checking'
PID = 'C08'
FAMILY = 'life'
PROPS = ['P_C08']
BASE = [{'role': 'acc', 'bs': 42}, {'role': 'init', 'bs': 42}, {'role': 'acc', 'bs': 44, 'schedule': True}, {'role': 'acc', 'bs': 42, 'resetSeqTime': True}]
ALT = [{'role': 'acc', 'bs': 44, 'resetOnDisconnect': True}, {'role': 'init', 'bs': 40}, {'role': 'acc', 'bs': 50}, {'role': 'init', 'bs': 44, 'resetOnLogout': True}]


def configs(ctx):
    if ctx.tier == 'quick':
        return BASE + [ALT[(ctx.seed + i) % len(ALT)] for i in range(min(2, len(ALT)))]
    return BASE + ALT


def run(ctx):
    sessfam.standard_run(ctx, PID, FAMILY, PROPS, configs(ctx), quick_budget=15000, thorough_budget=250000,
                         quick_bounds={'maxIn': 3, 'maxOut': 3, 'maxEp': 1}, thorough_bounds={'maxIn': 3, 'maxOut': 3, 'maxEp': 1},
                         statement='first message Logon/Logout, no application traffic outside the handshake, deliveries inside the notified period, one logout notification, nothing after close')


def replay(ctx, path):
    sessfam.standard_replay(ctx, PID, path)
