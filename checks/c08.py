"""C08 - inbound application messages reach the application in order, exactly once.
Family "seq" of Session.tla; monitors C08_* of Monitors.tla on traces of the real engine."""
from lib import common, sessfam

LEVEL = 'model_checking'
PID = 'C08'
FAMILY = 'life'
PROPS = ['P_C08']


def configs(ctx):
    quick = ctx.tier == 'quick'
    base = [dict(role='acc', bs=42, chunk=0), dict(role='acc', bs=42, chunk=2)]
    alt = [dict(role='init', bs=44, chunk=0), dict(role='init', bs=40, chunk=2), dict(role='acc', bs=41, chunk=1),
           dict(role='init', bs=50, chunk=0), dict(role='acc', bs=44, chunk=3), dict(role='init', bs=42, chunk=1)]
    if quick:
        return base + [alt[ctx.seed % len(alt)]]
    return base + alt


def run(ctx):
    sessfam.standard_run(ctx, PID, FAMILY, PROPS, configs(ctx),
                         quick_budget=15000, thorough_budget=250000,
                         statement='FromApp order / at-expected / advance-by-one / monotone counter')


def replay(ctx, path):
    sessfam.standard_replay(ctx, PID, path)
