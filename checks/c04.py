"""C04 - a sequence gap triggers one exact ResendRequest and loses nothing received.
Family "seq" of Session.tla; monitors C04_*."""
from lib import common, sessfam

LEVEL = 'model_checking'
PID = 'C04'
FAMILY = 'seq'
PROPS = ['P_C04']
BASE = [{'role': 'acc', 'bs': 42, 'chunk': 0, 'maxIn': 6, 'maxOut': 3}, {'role': 'acc', 'bs': 42, 'chunk': 1, 'maxIn': 5, 'maxOut': 4}, {'role': 'init', 'bs': 41, 'chunk': 2, 'maxIn': 5, 'maxOut': 3}]
ALT = [{'role': 'init', 'bs': 44, 'chunk': 1}, {'role': 'acc', 'bs': 40, 'chunk': 2}, {'role': 'acc', 'bs': 44, 'chunk': 3}, {'role': 'init', 'bs': 50, 'chunk': 0}, {'role': 'init', 'bs': 42, 'chunk': 3}, {'role': 'acc', 'bs': 41, 'chunk': 1}]


def configs(ctx):
    if ctx.tier == 'quick':
        return BASE + [ALT[(ctx.seed + i) % len(ALT)] for i in range(min(2, len(ALT)))]
    return BASE + ALT


def run(ctx):
    sessfam.standard_run(ctx, PID, FAMILY, PROPS, configs(ctx), quick_budget=15000, thorough_budget=250000,
                         quick_bounds={'maxIn': 5, 'maxOut': 3}, thorough_bounds={'maxIn': 7, 'maxOut': 4},
                         statement='one exact ResendRequest per gap, early messages kept, no extra requests while recovering, nothing kept is lost')


def replay(ctx, path):
    sessfam.standard_replay(ctx, PID, path)
