"""C13 - repeating groups survive the trip through the wire.

M: TLC checks on Groups.tla that reading back (Regroup) what Flatten writes is the identity, with
   trailing body fields left alone, for every generated template/instance.
R: vh groups writes each instance through the public API (RepeatingGroup / SetGroup) into a real
   message, serialises it (or takes a hand-assembled wire form with the group at an arbitrary body
   position), parses it without a dictionary and with the dictionary that defines the group
   (generated from the template, or the shipped specification), and reads it back through the
   same template.
V: TLC judges every observation with Groups!Fails (GroupsTrace.tla).
"""
import json
import os
import random
from concurrent.futures import ThreadPoolExecutor

from lib import common, fixgen, xmlwalk

LEVEL = 'model_checking'
F = lambda t: {'k': 'f', 'tag': t, 'members': []}
G = lambda t, ms: {'k': 'g', 'tag': t, 'members': ms}
TEMPLATES = {
    'flat': {'tag': 453, 'members': [F(448), F(447), F(452)]},
    'nested': {'tag': 453, 'members': [F(448), F(447), F(452), G(802, [F(523), F(803)])]},
    'nested_mid': {'tag': 453, 'members': [F(448), G(802, [F(523), F(803)]), F(452)]},
    'deep': {'tag': 453, 'members': [F(448), G(802, [F(523), G(78, [F(79), F(80)])]), F(447)]},
    'allocs': {'tag': 78, 'members': [F(79), F(80)]},
}


def instances(tmpl, rng, depth=0):
    """entry counts 0/1/2, optional members present or absent, nested groups 0/1/2; and counts around
    the places where the count's text gets longer (9, 10, 11), outer and nested"""
    out = [[]]
    ms = tmpl['members']

    def entry(full, nested_n):
        e = []
        for i, it in enumerate(ms):
            if i > 0 and not full and rng.random() < 0.5:
                continue
            if it['k'] == 'g':
                sub = {'tag': it['tag'], 'members': it['members']}
                e.append({'k': 'g', 'tag': it['tag'], 'v': '', 'inst': [sub_entry(sub, full, nested_n) for _ in range(nested_n)]})
            else:
                e.append({'k': 'f', 'tag': it['tag'], 'v': rng.choice(['A', 'xy', '7', 'D'])})
        for x in e:
            x.setdefault('inst', [])
        return e

    def sub_entry(sub, full, nested_n):
        e = []
        for i, it in enumerate(sub['members']):
            if i > 0 and not full and rng.random() < 0.5:
                continue
            if it['k'] == 'g':
                e.append({'k': 'g', 'tag': it['tag'], 'v': '', 'inst': [sub_entry({'tag': it['tag'], 'members': it['members']}, full, 1) for _ in range(min(nested_n, 1))]})
            else:
                e.append({'k': 'f', 'tag': it['tag'], 'v': rng.choice(['A', 'xy', '7']), 'inst': []})
        return e
    for n in (1, 2):
        for full in (True, False):
            for nn in (0, 1, 2):
                out.append([entry(full, nn) for _ in range(n)])
    for n in (9, 10, 11):
        out.append([entry(True, 0) for _ in range(n)])
    if any(it['k'] == 'g' for it in ms):
        for nn in (9, 10):
            out.append([entry(True, nn)])
    return out


def dict_parts(tmpl_members):
    parts = []
    for it in tmpl_members:
        if it['k'] == 'g':
            parts.append(('group', it['tag'], False, dict_parts(it['members'])))
        else:
            parts.append((it['tag'], False))
    return parts


def flatten(tag, inst):
    out = [(tag, str(len(inst)))]
    for e in inst:
        for x in e:
            if x['k'] == 'g':
                out += flatten(x['tag'], x['inst'])
            else:
                out.append((x['tag'], x['v']))
    return out


def synthetic_cases(ctx, rng, quick):
    cases = []
    for name, tmpl in TEMPLATES.items():
        path = os.path.join(ctx.scratch, 'dd_%s.xml' % name)
        others = [(11, False), (55, False), (38, False), (58, False), (9999, False)]
        extra_group = [('group', 78, False, [(79, False), (80, False)])] if tmpl['tag'] != 78 and not any(True for _ in [1] if '78' in json.dumps(tmpl)) else []
        with open(path, 'w') as f:
            f.write(fixgen.dict_xml('FIX', [8, 9, 35, 49, 56, 34, 52], [93, 89, 10],
                                    {'D': ('NewOrderSingle', others + [('group', tmpl['tag'], False, dict_parts(tmpl['members']))] + extra_group)}))
        insts = instances(tmpl, rng)
        for inst in insts:
            hdr = [(35, 'D'), (49, 'A'), (56, 'B'), (34, '2'), (52, '20240101-00:00:00')]
            g = flatten(tmpl['tag'], inst)
            # positions of the group in the body (hand-assembled wire): first, middle, last, followed by another group
            layouts = [([], [(55, 'IBM'), (38, '100')]), ([(11, 'id')], [(55, 'IBM')]), ([(11, 'id'), (55, 'IBM')], []),
                       ([(11, 'id')], [(9999, 'u'), (58, 't')])]
            if extra_group:
                layouts.append(([(11, 'id')], [(78, '1'), (79, 'acc'), (80, '5'), (38, '9')]))
                # another group directly BEFORE the group under test (two adjacent top-level groups)
                layouts.append(([(11, 'id'), (78, '2'), (79, 'acc'), (80, '5'), (79, 'acd'), (80, '6')], [(55, 'IBM')]))
            big = len(inst) > 2 or any(len(x['inst']) > 2 for e in inst for x in e)
            for before, after in (layouts[1:2] + layouts[-1:] if big else layouts):
                raw = fixgen.build(hdr + before + g + after, begin='FIX.4.4')
                plain_after = [[t, v] for (t, v) in after if t not in (78, 79, 80)]
                for d in ('', path):
                    cases.append({'id': 'syn:%s' % name, 'template': tmpl, 'inst': inst, 'before': [], 'after': plain_after, 'begin': 'FIX.4.4', 'msgtype': 'D',
                                  'dict': d, 'tdict': '', 'raw': list(raw.encode('latin1')), 'layout': 'raw', 'group_last': not after,
                                  'has_nested': any(x['k'] == 'g' and x['inst'] for e in inst for x in e)})
            # through the API (the serialiser orders body fields by tag number)
            for d in ('', path):
                cases.append({'id': 'syn:%s' % name, 'template': tmpl, 'inst': inst, 'before': [[11, 'id'], [55, 'IBM']], 'after': [[9999, 'u']] if tmpl['tag'] < 9999 else [],
                              'begin': 'FIX.4.4', 'msgtype': 'D', 'dict': d, 'tdict': '', 'layout': 'api', 'group_last': False,
                              'has_nested': any(x['k'] == 'g' and x['inst'] for e in inst for x in e)})
    return cases


def shipped_cases(rng, specs):
    cases = []
    ngroups = 0
    for spec in specs:
        doc = xmlwalk.load(os.path.join(common.REPO, 'spec', spec + '.xml'))
        num = {f['name']: f['num'] for f in doc['fields']}
        comps = {c['name']: c['parts'] for c in doc['components']}

        def flat(parts):
            out = []
            for p in parts:
                if p['k'] == 'component':
                    out += flat(comps[p['name']])
                elif p['k'] == 'group':
                    out.append({'k': 'g', 'tag': num[p['name']], 'members': flat(p['parts'])})
                else:
                    out.append({'k': 'f', 'tag': num[p['name']], 'members': []})
            return out

        def populate(members, n, depth):
            inst = []
            for j in range(n):
                e = []
                for it in members:
                    if it['k'] == 'g':
                        if depth < 2:
                            e.append({'k': 'g', 'tag': it['tag'], 'v': '', 'inst': populate(it['members'], 1, depth + 1)})
                    else:
                        e.append({'k': 'f', 'tag': it['tag'], 'v': 'v%d' % j, 'inst': []})
                inst.append(e)
            return inst
        fixt = spec.startswith('FIX50')
        begin = 'FIXT.1.1' if fixt else {'FIX40': 'FIX.4.0', 'FIX41': 'FIX.4.1', 'FIX42': 'FIX.4.2', 'FIX43': 'FIX.4.3', 'FIX44': 'FIX.4.4', 'FIXT11': 'FIXT.1.1'}[spec]
        hdr_tags = set(num[p['name']] for p in doc['header'] if p['k'] != 'component' and p['name'] in num)
        for m in doc['messages']:
            top = flat(m['parts'])
            for gi, it in enumerate(top):
                if it['k'] != 'g' or not it['members'] or it['members'][0]['k'] != 'f':
                    continue
                ngroups += 1
                tmpl = {'tag': it['tag'], 'members': it['members']}
                # a plain top-level field of the message that sorts after the group's count tag
                after_tags = [x['tag'] for x in top if x['k'] == 'f' and x['tag'] > it['tag'] and x['tag'] not in hdr_tags][:1]
                member_tags = set()

                def collect(ms):
                    for x in ms:
                        member_tags.add(x['tag'])
                        collect(x['members'])
                collect(it['members'])
                after_tags = [t for t in after_tags if t not in member_tags]
                for n in (1, 2):
                    inst = populate(it['members'], n, 0)
                    cases.append({'id': '%s:%s:%d' % (spec, m['msgtype'], it['tag']), 'template': tmpl, 'inst': inst, 'before': [],
                                  'after': [[t, 'z'] for t in after_tags], 'begin': begin, 'msgtype': m['msgtype'],
                                  'dict': os.path.join(common.REPO, 'spec', spec + '.xml'),
                                  'tdict': os.path.join(common.REPO, 'spec', 'FIXT11.xml') if fixt else '', 'layout': 'api', 'group_last': not after_tags,
                                  'has_nested': any(x['k'] == 'g' and x['inst'] for e in inst for x in e)})
    return cases, ngroups


def run(ctx):
    quick = ctx.tier == 'quick'
    rng = random.Random(ctx.seed)
    ctx.build()
    cases = synthetic_cases(ctx, rng, quick)
    specs = ['FIX40', 'FIX41', 'FIX42', 'FIX43', 'FIX44', 'FIX50', 'FIX50SP1', 'FIX50SP2', 'FIXT11']
    if quick:
        specs = [specs[(ctx.seed + k) % 9] for k in (0, 4)]
        specs = list(dict.fromkeys(specs + ['FIX44']))[:3]
    sc, ngroups = shipped_cases(rng, specs)
    cases += sc
    # M on the synthetic cases
    mc = [{'template': c['template'], 'inst': c['inst'], 'after': [[t, v] for t, v in c['after']]} for c in cases if c['id'].startswith('syn:')][::3][:400]
    mod = '---- MODULE Groups_MC ----\nEXTENDS Groups, Json\nRaw == JsonDeserialize("cases.json")\nMCCases == [i \\in DOMAIN Raw |-> [template |-> Raw[i].template, inst |-> Raw[i].inst, after |-> [j \\in DOMAIN Raw[i].after |-> <<Raw[i].after[j][1], Raw[i].after[j][2]>>]]]\n====\n'
    cfg = 'SPECIFICATION Spec\nCONSTANTS\n Cases <- MCCases\nINVARIANT RoundTrip\nCHECK_DEADLOCK FALSE\n'
    r = ctx.tlc('Groups_MC.tla', 'g.cfg', workers=4, timeout=1800, javaopts='-Xss512m', files={'Groups_MC.tla': mod, 'g.cfg': cfg, 'cases.json': json.dumps(mc)})
    ctx.tlc_ok(r, 'Groups M')
    cp = os.path.join(ctx.scratch, 'cases.ndjson')
    common.ndjson_write(cp, cases)
    tp = os.path.join(ctx.scratch, 'trace.ndjson')
    p = ctx.run_vh(['groups', '-cases', cp, '-out', tp], timeout=3000)
    if p.returncode != 0:
        raise common.Infra('vh groups failed: ' + p.stderr[-1500:])
    rows = common.ndjson_read(tp)
    for r_ in rows:
        if 'panic' in r_:
            ctx.report({'family': 'groups', 'clause': 'panic'}, 'group round trip panics: %s (%s)' % (r_['panic'], r_['id']), {'case': r_})
        if 'dictErr' in r_['obs']:
            raise common.Infra('dictionary did not load: ' + r_['obs']['dictErr'])
    clean = [r_ for r_ in rows if 'panic' not in r_]
    size = (len(clean) + 7) // 8
    mism = []
    with ThreadPoolExecutor(max_workers=8) as ex:
        for m in ex.map(lambda ch: validate(ctx, ch), [clean[i:i + size] for i in range(0, len(clean), size)]):
            mism += m
    for ch, m in mism:
        row = ch[int(m[1]) - 1]
        for c in sorted(m[2]):
            sig = {'family': 'groups', 'clause': c, 'dict': bool(row['dict']), 'shipped': not row['id'].startswith('syn:'), 'has_nested': row['has_nested'],
                   'followed_by_body_field': bool(row['after']), 'layout': row['layout']}
            ctx.report(sig, 'C13 clause %s (%s, dict=%s): bytes=%s back=%s afterFound=%s %s' % (
                c, row['id'], bool(row['dict']), row['obs'].get('bytes', '')[:300], json.dumps(row['obs']['back'])[:200], row['obs']['afterFound'],
                row['obs'].get('backErrText', row['obs'].get('parseErr', ''))), {'case': {k: v for k, v in row.items() if k != 'obs'}})
    negative_control(ctx, clean)
    ctx.cov.update({
        'states': max(r['distinct'], 1), 'transitions': max(r['generated'], 1), 'traces_validated_against_impl': len(clean),
        'evaluations': len(rows), 'distinct_nontrivial': len(set((c['id'], json.dumps(c['inst']), c['dict'], json.dumps(c['after'])) for c in cases)),
        'rule': 'one case = (template, instance, body layout, dictionary setting); synthetic templates %s with entry counts 0/1/2/9/10/11, optional members on/off, nested 0/1/2/9/10/11; every group of every message of %s' % (sorted(TEMPLATES), specs),
        'shipped_groups': ngroups, 'samples': [{'id': rows[3]['id'], 'bytes': rows[3]['obs'].get('bytes')}, {'id': rows[-1]['id']}], 'exhaustive': False,
    })


def validate(ctx, rows):
    content = '\n'.join(json.dumps({k: v for k, v in r.items() if k != 'raw'}, separators=(',', ':')) for r in rows) + '\n'
    mod = '---- MODULE GroupsTraceX ----\nEXTENDS GroupsTrace\nMCCases == <<>>\n====\n'
    cfg = 'SPECIFICATION TraceSpec\nCONSTANTS\n Cases <- MCCases\nPOSTCONDITION AllConsumed\nCHECK_DEADLOCK FALSE\n'
    r = ctx.tlc('GroupsTraceX.tla', 'tr.cfg', workers=1, timeout=3000, javaopts='-Xss512m', files={'trace.ndjson': content, 'tr.cfg': cfg, 'GroupsTraceX.tla': mod})
    if r['rc'] != 0 or 'Model checking completed. No error has been found.' not in r['out']:
        raise common.Infra('GroupsTrace did not run to completion:\n' + r['out'][-2500:])
    return [(rows, m) for m in common.printed(r['out'], 'MISMATCH')]


def negative_control(ctx, rows):
    import copy
    head = copy.deepcopy([r_ for r_ in rows if r_['obs']['parsed'] and r_['obs']['back'] and not r_['obs']['backErr']][:6])
    head[2]['obs']['back'][0][0]['v'] += '!'
    m = validate(ctx, head)
    if not any(int(x[1][1]) == 3 and 'readBack' in x[1][2] for x in m):
        raise common.Infra('negative control failed: an altered read-back value was accepted')
    ctx.notes.append('negative control: altered read-back value rejected by GroupsTrace')


def replay(ctx, path):
    with open(path) as f:
        d = json.load(f)
    ctx.build()
    cp = os.path.join(ctx.scratch, 'cases.ndjson')
    common.ndjson_write(cp, [d['replay']['case']])
    tp = os.path.join(ctx.scratch, 'trace.ndjson')
    ctx.run_vh(['groups', '-cases', cp, '-out', tp])
    rows = common.ndjson_read(tp)
    print(json.dumps(rows[0]['obs'])[:1500])
    for ch, m in validate(ctx, rows):
        ctx.report({'family': 'groups', 'clause': sorted(m[2])[0]}, str(sorted(m[2])), d['replay'])
    ctx.cov.update({'states': 1, 'transitions': 1, 'traces_validated_against_impl': 1, 'samples': [rows[0]['id']]})
