"""C14 - field value types convert canonically and reject everything else.

M: TLC checks the round-trip laws of Values.tla (printer/grammar/denotation) on value grids.
R: vh values runs the real Read/Write of FIXInt, FIXFloat, FIXBoolean, FIXUTCTimestamp, FIXDecimal,
   FIXString, FIXBytes on every text of a bounded-exhaustive near-miss space and on value grids.
V: TLC judges every line against the grammar (accept / reject / unspecified), the exact
   denotation and the canonical text (ValuesTrace.tla).
"""
import itertools
import json
import os
import random
from concurrent.futures import ThreadPoolExecutor

from lib import common

LEVEL = 'model_checking'
TS_BASES = ['20240229-23:59:59', '20230228-00:00:00', '20001231-12:30:45.123', '19991231-23:59:59.999',
            '20240131-01:02:03.123456', '20240430-10:20:30.000001', '21000228-07:08:09.123456789', '20240101-00:00:00.000000000']
TS_ALPHA = '0123456789-:., +TZa'


def codes(s):
    return [ord(c) for c in s]


def strings(alpha, maxlen):
    for n in range(0, maxlen + 1):
        for tup in itertools.product(alpha, repeat=n):
            yield ''.join(tup)


def ts_fields(s):
    frac = s[18:] if len(s) > 17 else ''
    ns = int((frac + '000000000')[:9]) if frac else 0
    return {'y': int(s[0:4]), 'mo': int(s[4:6]), 'd': int(s[6:8]), 'h': int(s[9:11]), 'mi': int(s[12:14]), 's': int(s[15:17]), 'ns': ns}


def gen_cases(quick, rng):
    cases = []
    n = 4 if quick else 5
    for t in strings('-+019 .ea', n):
        cases.append({'op': 'read', 'ty': 'int', 't': codes(t)})
    for t in strings('-+05.eE x', n):
        cases.append({'op': 'read', 'ty': 'float', 't': codes(t)})
    for t in strings('YNyn01TF ', 2):
        cases.append({'op': 'read', 'ty': 'bool', 't': codes(t)})
    # longer ints / floats: single and double deviations of valid texts
    for base in ['123456789012345', '-987654321', '000123', '2147483648', '00000000000000000001']:
        for ty in ('int', 'float'):
            cases.append({'op': 'read', 'ty': ty, 't': codes(base)})
            for i in range(len(base) + 1):
                for c in '-+. e9x':
                    cases.append({'op': 'read', 'ty': ty, 't': codes(base[:i] + c + base[i:])})
                    if i < len(base):
                        cases.append({'op': 'read', 'ty': ty, 't': codes(base[:i] + c + base[i + 1:])})
    # integer texts around and beyond the machine word: accepted with the exact value or refused, never wrapped
    for base in ['9223372036854775807', '9223372036854775808', '9223372036854775809', '18446744073709551615', '18446744073709551616',
                 '18446744073709551617', '99999999999999999999', '100000000000000000000', '1' + '0' * 30, '4294967296', '12345678901234567890123']:
        cases.append({'op': 'read', 'ty': 'int', 't': codes(base)})
        cases.append({'op': 'read', 'ty': 'int', 't': codes('-' + base)})
    for base in ['123.456', '-0.001', '23.', '100.000', '0.5', '1e5', '0x10', 'Inf', 'NaN', 'infinity', '1_000', '+1.5', '.', '-.', '-']:
        cases.append({'op': 'read', 'ty': 'float', 't': codes(base)})
        cases.append({'op': 'read', 'ty': 'int', 't': codes(base)})
    # timestamps: every single-position substitution, deletion and insertion on a grid of valid stamps
    for base in TS_BASES:
        cases.append({'op': 'read', 'ty': 'ts', 't': codes(base)})
        for i in range(len(base)):
            for c in TS_ALPHA:
                if c != base[i]:
                    cases.append({'op': 'read', 'ty': 'ts', 't': codes(base[:i] + c + base[i + 1:])})
            cases.append({'op': 'read', 'ty': 'ts', 't': codes(base[:i] + base[i + 1:])})
            cases.append({'op': 'read', 'ty': 'ts', 't': codes(base[:i] + rng.choice(TS_ALPHA) + base[i:])})
        for cut in (16, 18, 19, 20, 22, 23, 25, 26):
            if cut < len(base):
                cases.append({'op': 'read', 'ty': 'ts', 't': codes(base[:cut])})
    for extra in ['', '20240229-23:59:60', '20230229-10:00:00', '20240431-10:00:00', '20241301-10:00:00', '20240100-10:00:00',
                  '20240101-24:00:00', '20240101-10:60:00', '00000101-00:00:00', '20240101-10:00:00.1234', '20240101T10:00:00',
                  '20240101-10:00:00,123', '20240101-10:00:00,123456', '20240101-1:00:00.00', '2024011-10:00:00.', ' 0240101-10:00:00']:
        cases.append({'op': 'read', 'ty': 'ts', 't': codes(extra)})
    # writes
    for v in [0, 1, -1, 9, 10, 99, 100, -100, 12345, 2147483647, -2147483647, 999999999, -999999999] + \
            [rng.randint(-2 * 10**9, 2 * 10**9) for _ in range(50 if quick else 500)]:
        cases.append({'op': 'write', 'ty': 'int', 'iv': v})
    for b in (True, False):
        cases.append({'op': 'write', 'ty': 'bool', 'bv': b})
    stamps = list(TS_BASES) + ['20240229-00:00:00.999999999', '19700101-00:00:00', '20380119-03:14:07.5']
    for _ in range(30 if quick else 300):
        y = rng.choice([1999, 2000, 2023, 2024, 2100])
        mo = rng.randint(1, 12)
        d = rng.randint(1, 28)
        stamps.append('%04d%02d%02d-%02d:%02d:%02d.%09d' % (y, mo, d, rng.randint(0, 23), rng.randint(0, 59), rng.randint(0, 59), rng.randint(0, 999999999)))
    for s in stamps:
        f = ts_fields(s)
        for prec in (0, 3, 6, 9):
            cases.append({'op': 'write', 'ty': 'ts', 'ts': f, 'prec': prec})
    for f in ['0', '1', '-1', '0.5', '-0.25', '23.23', '100', '1e-7', '123456.123', '0.000001', '1e8', '3.14159', '2.5e-10', '-0'] + \
            ['%d.%0*d' % (rng.randint(0, 10**(8 - k)), k, rng.randint(0, 10**k - 1)) for k in (1, 2, 4, 6) for _ in range(10 if quick else 80)]:
        cases.append({'op': 'write', 'ty': 'float', 'f': f})
    for d, sc in [('1.5', 1), ('1.50', 2), ('-0.001', 3), ('100', 0), ('100', 2), ('12345.678900', 6), ('0', 0), ('0', 3), ('-7', 1), ('1.25', 1), ('2.999', 2)]:
        cases.append({'op': 'write', 'ty': 'dec', 'dec': d, 'scale': sc})
    for raw in ['', 'abc', 'a=b', ' ', 'café', 'x' * 300]:
        cases.append({'op': 'write', 'ty': 'str', 'raw': list(raw.encode('utf-8'))})
    cases.append({'op': 'write', 'ty': 'str', 'raw': [b for b in range(0, 256) if b != 1]})
    for _ in range(20 if quick else 200):
        cases.append({'op': 'write', 'ty': 'str', 'raw': [rng.choice([b for b in range(256) if b != 1]) for _ in range(rng.randint(0, 40))]})
    return cases


def run(ctx):
    quick = ctx.tier == 'quick'
    rng = random.Random(ctx.seed)
    ctx.build()
    mod = ('---- MODULE Values_MC ----\nEXTENDS Values\nMCInt == {0, 1, -1, 9, 10, 99, 100, -100, 12345, 214748364, -214748364, 999999999, -999999999}\n'
           'MCTs == [y : {1999, 2000, 2024, 2100}, mo : {1, 2, 12}, d : {1, 28}, h : {0, 23}, mi : {0, 59}, s : {0, 59}, ns : {0, 1, 999999999, 123456789}]\n====\n')
    cfg = 'SPECIFICATION Spec\nCONSTANTS\n IntGrid <- MCInt\n TsGrid <- MCTs\nINVARIANTS IntRoundTrip BoolRoundTrip TsRoundTrip\nCHECK_DEADLOCK FALSE\n'
    r = ctx.tlc('Values_MC.tla', 'vmc.cfg', workers=4, timeout=1200, files={'Values_MC.tla': mod, 'vmc.cfg': cfg})
    ctx.tlc_ok(r, 'Values M')
    cases = gen_cases(quick, rng)
    cp = os.path.join(ctx.scratch, 'cases.ndjson')
    common.ndjson_write(cp, cases)
    tp = os.path.join(ctx.scratch, 'trace.ndjson')
    p = ctx.run_vh(['values', '-cases', cp, '-out', tp], timeout=1800)
    if p.returncode != 0:
        raise common.Infra('vh values failed: ' + p.stderr[-1500:])
    rows = common.ndjson_read(tp)
    if len(rows) != len(cases):
        raise common.Infra('driver returned %d rows for %d cases' % (len(rows), len(cases)))
    panics = [r_ for r_ in rows if 'panic' in r_]
    for r_ in panics:
        text = bytes(r_.get('t', [])).decode('latin1')
        sig = {'family': 'values', 'ty': r_['ty'], 'op': r_['op'], 'kind': 'panic', 'empty': text == ''}
        ctx.report(sig, '%s.%s(%r) panics: %s' % (r_['ty'], r_['op'], text, r_['panic']), {'case': {k: v for k, v in r_.items() if k != 'panic'}})
    clean = [sanitize(r_) for r_ in rows if 'panic' not in r_]
    size = (len(clean) + 7) // 8
    chunks = [clean[i:i + size] for i in range(0, len(clean), size)]
    mism = []
    with ThreadPoolExecutor(max_workers=8) as ex:
        for m in ex.map(lambda ch: validate(ctx, ch), chunks):
            mism += m
    for ch, m in mism:
        row = ch[int(m[1]) - 1]
        report(ctx, row, sorted(m[2]))
    negative_control(ctx, clean)
    ctx.cov.update({
        'states': max(r['distinct'], 1), 'transitions': max(r['generated'], 1),
        'traces_validated_against_impl': len(clean),
        'evaluations': len(rows), 'distinct_nontrivial': len(set(json.dumps(c, sort_keys=True) for c in cases)),
        'rule': 'one case = one Read of a text or one Write+Read of a value; every text up to length %d over a 9-character near-miss alphabet for int and float, up to 2 for boolean, every single-position substitution/deletion/insertion of %d valid timestamps' % (4 if quick else 5, len(TS_BASES)),
        'samples': [rows[5], rows[-1]], 'exhaustive': True,
    })
    ctx.assumptions += ['texts the FIX grammar is silent on are unspecified and never judged: ".5", integers beyond 15 digits, the leap second 23:59:60, year 0000',
                        'float values are compared as exact decimals of the shortest round-trip text of the returned float64 (strconv); binary rounding itself is outside the specification']


BIG = 2**31 - 1


def sanitize(row):
    """TLC integers are 32-bit: values outside that range are replaced by a sentinel (such rows are
    unspecified in the model unless the implementation returned a huge value for a short text,
    in which case the sentinel makes the line mismatch)"""
    def fix(v):
        if isinstance(v, bool):
            return v
        if isinstance(v, int) and abs(v) > BIG:
            return -999999
        if isinstance(v, list):
            return [fix(x) for x in v]
        if isinstance(v, dict):
            return {k: fix(x) for k, x in v.items()}
        return v
    return {k: (fix(v) if k in ('iv', 'back', 'fv', 'ts') else v) for k, v in row.items()}


def report(ctx, row, kinds):
    text = bytes(row.get('t', [])).decode('latin1')
    for kind in kinds:
        sig = {'family': 'values', 'ty': row['ty'], 'op': row['op'], 'kind': kind}
        if row['ty'] == 'ts' and row['op'] == 'read':
            sig['comma'] = ',' in text
        what = '%s %s %r: %s (observed ok=%s %s)' % (row['ty'], row['op'], text if row['op'] == 'read' else {k: row.get(k) for k in ('iv', 'bv', 'ts', 'prec', 'f', 'dec', 'scale')},
                                                       kind, row.get('ok'), {k: row.get(k) for k in ('iv', 'fv', 'bv', 'ts', 'back', 'same') if k in row})
        ctx.report(sig, what, {'case': {k: v for k, v in row.items() if k in ('op', 'ty', 't', 'iv', 'bv', 'ts', 'prec', 'f', 'dec', 'scale', 'raw')}})


def validate(ctx, rows):
    content = '\n'.join(json.dumps(r, separators=(',', ':')) for r in rows) + '\n'
    mod = '---- MODULE ValuesTraceX ----\nEXTENDS ValuesTrace\nMCInt == {0}\nMCTs == {}\n====\n'
    cfg = 'SPECIFICATION TraceSpec\nCONSTANTS\n IntGrid <- MCInt\n TsGrid <- MCTs\nPOSTCONDITION AllConsumed\nCHECK_DEADLOCK FALSE\n'
    r = ctx.tlc('ValuesTraceX.tla', 'tr.cfg', workers=1, timeout=3000, files={'trace.ndjson': content, 'tr.cfg': cfg, 'ValuesTraceX.tla': mod})
    if r['rc'] != 0 or 'Model checking completed. No error has been found.' not in r['out']:
        raise common.Infra('ValuesTrace did not run to completion:\n' + r['out'][-2500:])
    return [(rows, m) for m in common.printed(r['out'], 'MISMATCH')]


def negative_control(ctx, rows):
    import copy
    head = copy.deepcopy([r_ for r_ in rows if r_['op'] == 'read' and r_['ty'] == 'int' and r_['ok']][:10])
    head[3]['iv'] += 1
    m = validate(ctx, head)
    if not any(int(x[1][1]) == 4 for x in m):
        raise common.Infra('negative control failed: a wrong integer value was accepted')
    ctx.notes.append('negative control: off-by-one integer value rejected by ValuesTrace')


def replay(ctx, path):
    with open(path) as f:
        d = json.load(f)
    ctx.build()
    cp = os.path.join(ctx.scratch, 'cases.ndjson')
    common.ndjson_write(cp, [d['replay']['case']])
    tp = os.path.join(ctx.scratch, 'trace.ndjson')
    ctx.run_vh(['values', '-cases', cp, '-out', tp])
    rows = common.ndjson_read(tp)
    print(json.dumps(rows[0]))
    if 'panic' in rows[0]:
        ctx.report({'family': 'values', 'kind': 'panic', 'ty': rows[0]['ty'], 'op': rows[0]['op'], 'empty': rows[0].get('t') == []}, rows[0]['panic'], d['replay'])
    else:
        for ch, m in validate(ctx, rows):
            report(ctx, ch[0], sorted(m[2]))
    ctx.cov.update({'states': 1, 'transitions': 1, 'traces_validated_against_impl': 1, 'samples': [rows[0]]})
