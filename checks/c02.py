"""C02 - outbound messages are numbered consecutively and persisted before sending.

M: TLC model-checks SendPath.tla (sender goroutines, the session loop, the two locks) for the C02
   invariants, and re-checks the two weakened protocols (a lock dropped) expecting the matching
   invariant to FAIL - which shows the invariants are carried by the locks.
R: vh send runs real sender goroutines calling SendToTarget against the real run loop, which
   concurrently answers TestRequests, rejects bad messages and replays for ResendRequests; a
   recording store and the outbound channel are observed under one global event counter.
V: TLC evaluates the C02 clauses on every recorded run (SendPathTrace.tla).
"""
import json
import os

from lib import common

LEVEL = 'model_checking'
CFG = '''SPECIFICATION Spec
CONSTANTS
  Senders = %s
  PerSender = %d
  LoopActions = %d
  UseRLock = %s
  UseSendLock = %s
  TailUnderLock = %s
INVARIANTS C02_Consecutive C02_StoreNext C02_WireOrder C02_PersistBeforeWire C02_NoLiveInsideReplay
%s
CHECK_DEADLOCK FALSE
'''


def run(ctx):
    quick = ctx.tier == 'quick'
    ctx.build()
    senders = '{"a", "b"}' if quick else '{"a", "b", "c"}'
    r = ctx.tlc('SendPath.tla', 'sp.cfg', workers=16, timeout=2400,
                files={'sp.cfg': CFG % (senders, 2, 2 if quick else 3, 'TRUE', 'TRUE', 'TRUE', '' if quick else 'PROPERTY C02_AllTransmitted')})
    ctx.tlc_ok(r, 'SendPath M')
    # weakened protocols must violate
    for lock, inv in (('UseRLock', 'C02_NoLiveInsideReplay'), ('UseSendLock', 'C02_Consecutive'), ('TailUnderLock', 'C02_NoLiveInsideReplay')):
        w = ctx.tlc('SendPath.tla', 'w.cfg', workers=16, timeout=1200,
                    files={'w.cfg': CFG % ('{"a", "b"}', 2, 2, 'FALSE' if lock == 'UseRLock' else 'TRUE', 'FALSE' if lock == 'UseSendLock' else 'TRUE',
                                           'FALSE' if lock == 'TailUnderLock' else 'TRUE', '')})
        if 'Invariant %s is violated' % inv not in w['out'] and not (lock == 'UseSendLock' and 'is violated' in w['out']):
            raise common.Infra('vacuity: SendPath without %s does not violate any invariant' % lock)
        ctx.notes.append('weakened model (%s = FALSE): TLC reports a violated invariant, as it must' % lock)
    proof(ctx)
    rows = []
    stores = ['memory', 'file'] if quick else ['memory', 'file', 'sqlite']
    for st in stores:
        tp = os.path.join(ctx.scratch, 'send_%s.ndjson' % st)
        args = ['send', '-out', tp, '-store', st, '-repo', common.REPO]
        if quick:
            # quick tier: stress runs on the memory store; the forced schedules also on the file store
            args += ['-gated', '2', '-runs', '4' if st == 'memory' else '0', '-senders', '4', '-per', '150', '-rounds', '8']
        else:
            args += ['-gated', '4', '-runs', '12', '-senders', '8', '-per', '200' if st == 'memory' else '60', '-rounds', '12']
        p = ctx.run_vh(args, timeout=3000)
        if p.returncode != 0:
            if 'engine stuck' in p.stderr:
                ctx.report({'family': 'sendpath', 'clause': 'allTransmitted', 'kind': 'stuck'}, 'the engine stopped answering under concurrent sends: ' + p.stderr[-400:], {'store': st})
                continue
            fatal = [l for l in p.stderr.splitlines() if l.startswith('fatal error:') or l.startswith('panic:')]
            if fatal:
                # the Go runtime killed the process: unsynchronised access inside the send path (e.g. two
                # goroutines in the store at once) - the mutual exclusion C02 rests on is gone
                ctx.report({'family': 'sendpath', 'clause': 'consecutive', 'kind': 'runtime-fatal'},
                           'the process died under concurrent sends (%s): senders and the session loop were inside the send path at the same time' % fatal[0],
                           {'store': st, 'stderr_head': p.stderr[:1500]})
                continue
            raise common.Infra('vh send failed: ' + p.stderr[-1500:])
        skipped = [l for l in p.stderr.splitlines() if l.startswith('send: skipped:')]
        if skipped:
            ctx.notes.append('%s store: %d run(s) void (the session logged itself out during the run, e.g. after a store error): %s' % (st, len(skipped), skipped[0][:200]))
        rows += common.ndjson_read(tp)
    if not rows:
        ctx.cov.update({'states': r['distinct'], 'transitions': r['generated'], 'traces_validated_against_impl': 0, 'samples': ['no run completed']})
        return
    content = '\n'.join(json.dumps(r_, separators=(',', ':')) for r_ in rows) + '\n'
    cfg = 'SPECIFICATION TraceSpec\nPOSTCONDITION AllConsumed\nCHECK_DEADLOCK FALSE\n'
    v = ctx.tlc('SendPathTrace.tla', 'tr.cfg', workers=1, timeout=3000, javaopts='-Xss1g', files={'trace.ndjson': content, 'tr.cfg': cfg})
    if v['rc'] != 0 or 'Model checking completed. No error has been found.' not in v['out']:
        raise common.Infra('SendPathTrace did not run to completion:\n' + v['out'][-2500:])
    for m in common.printed(v['out'], 'MISMATCH'):
        row = rows[int(m[1]) - 1]
        for c in sorted(m[2]):
            w = row['wire']
            ctx.report({'family': 'sendpath', 'clause': c, 'store': row['store'], 'forced': bool(row.get('gated'))},
                       'C02 clause %s in %s run %d (%s store, %d senders x %d): submitted=%d saved=%d nextOut=%d wire=%d messages (%d replayed)' % (
                           c, 'forced-schedule (epoch %d, %d of %d probes completed inside a replay)' % (row['epoch'], row['early'], row['probes']) if row.get('gated') else 'stress',
                           row['run'], row['store'], row['senders'], row['per'], row['submitted'], len(row['saved']), row['nextOut'], len(w), sum(1 for x in w if x['pd'])),
                       {'run': {k: row[k] for k in ('store', 'senders', 'per', 'submitted', 'nextOut', 'windows')}, 'saved_head': row['saved'][:50],
                        'wire_head': w[:200]})
    # negative control: a first-time message moved into a replayed run must be flagged
    import copy
    bad = copy.deepcopy([r_ for r_ in rows if not r_.get('gated')][0])
    a, b = bad['windows'][1]
    pds = [i for i in range(a - 1, b) if bad['wire'][i]['pd']]
    if len(pds) >= 2:
        bad['wire'][pds[len(pds) // 2]]['pd'] = False
        v2 = ctx.tlc('SendPathTrace.tla', 'tr.cfg', workers=1, timeout=1200, javaopts='-Xss1g', files={'trace.ndjson': json.dumps(bad) + '\n', 'tr.cfg': cfg})
        if not any('noLiveInsideReplay' in m[2] for m in common.printed(v2['out'], 'MISMATCH')):
            raise common.Infra('negative control failed: a first-time message inside a replayed run was accepted')
        ctx.notes.append('negative control: a first-time message planted inside a replayed run is flagged (noLiveInsideReplay)')
    ctx.cov.update({
        'states': r['distinct'], 'transitions': r['generated'], 'traces_validated_against_impl': len(rows),
        'evaluations': sum(len(r_['wire']) for r_ in rows),
        'distinct_nontrivial': len(rows),
        'forced_schedule_rows': sum(1 for r_ in rows if r_.get('gated')),
        'forced_probes': sum(r_['probes'] for r_ in rows if r_.get('gated') and r_['epoch'] == 2),
        'rule': 'one trace = one stress run (sender goroutines x messages, concurrent resend rounds, rejects, test requests) or one epoch of a forced-schedule run (a submission attempted at every callback inside every replay; ResetSeqTime crossed while connected); evaluations = messages observed on the outbound channel',
        'stores': stores,
        'samples': [{k: rows[0][k] for k in ('store', 'senders', 'per', 'submitted', 'nextOut', 'windows')}, {'wire_head': rows[0]['wire'][:6]}],
        'exhaustive': False,
    })
    ctx.assumptions += ['stress schedules are whatever the Go scheduler produced in this run: a lost lock shows there only if the race occurs; forced schedules place one submission at every application callback inside a replay (6 ms wait each), which reaches every point of the replay where the application is called but not points between two store reads; the model check covers every interleaving of the bounded protocol',
                        'store saves and wire receipts are ordered by one global atomic counter (save -> channel send -> channel receive is causally ordered)']


def proof(ctx):
    """the numbering core for any number of processes and submissions: TLAPS proof of Numbering.tla (the unbounded
    counterpart of C02_Consecutive / C02_StoreNext), plus a TLC run of the same module so that the proved
    theorem is about a specification that has behaviours"""
    import shutil
    import subprocess
    d = os.path.join(ctx.scratch, 'tlaps')
    os.makedirs(d, exist_ok=True)
    shutil.copy(os.path.join(common.SPEC, 'Numbering.tla'), d)
    p = subprocess.run(['timeout', '900', 'tlapm', '--threads', '16', 'Numbering.tla'], cwd=d, capture_output=True, text=True)
    out = p.stdout + p.stderr
    import re
    m = re.search(r'All (\d+) obligations? proved', out)
    if p.returncode != 0 or not m:
        raise common.Infra('tlapm did not prove Numbering.tla:\n' + out[-1500:])
    cfg = 'SPECIFICATION Spec\nCONSTANTS\n Procs = {"a", "b", "c"}\nINVARIANT Inv\nCHECK_DEADLOCK FALSE\n'
    r = ctx.tlc('Numbering.tla', 'n.cfg', workers=4, timeout=600, files={'n.cfg': cfg, 'TLAPS.tla': '---- MODULE TLAPS ----\nPTL == TRUE\n====\n'},
                extra=['-depth', '12', '-simulate', 'num=200'])
    if 'Error' in r['out'] and 'violated' in r['out']:
        raise common.Infra('Numbering.tla: TLC contradicts the proved invariant:\n' + r['out'][-1500:])
    ctx.notes.append('TLAPS: Numbering.tla, %s obligations proved (numbers handed out are exactly 1..next-1 for any set of processes)' % m.group(1))


def replay(ctx, path):
    raise common.Infra('C02 violations are schedule dependent; the recorded run is in the replay file, re-run ./check C02 to look for it again')
