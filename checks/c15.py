"""C15 - validation accepts conforming messages and names the defect otherwise.

R: for message types of the shipped specifications (independent XML walk) a conforming instance is
   generated (required fields only, and with optional fields and groups), then every kind of single
   defect is applied at an eligible position; vh validate parses each with the real dictionaries
   and runs the real Validator under several settings combinations.
V: TLC re-derives from the documents (Dictionary.tla operators) that each generated message carries
   exactly the structural defect it claims (generator sanity), and judges the validator's answer
   with Validator!Fails: conforming => accepted; single defect of kind k => rejected with k's
   reason and reference tag, unless a setting relaxes it (ValidatorTrace.tla).
M: TLC checks laws of the operators on generated documents (shared with C19's Dictionary.tla).
"""
import json
import os
import random
from concurrent.futures import ThreadPoolExecutor

from lib import common, fixgen, xmlwalk

LEVEL = 'model_checking'
SPECS = ['FIX40', 'FIX41', 'FIX42', 'FIX43', 'FIX44', 'FIX50', 'FIX50SP1', 'FIX50SP2']
BEGIN = {'FIX40': 'FIX.4.0', 'FIX41': 'FIX.4.1', 'FIX42': 'FIX.4.2', 'FIX43': 'FIX.4.3', 'FIX44': 'FIX.4.4'}
DEFAULT = {'outOfOrder': True, 'haveValues': True, 'rejectInvalid': True, 'allowUnknown': False, 'checkUserDefined': True}
SETTINGS = [DEFAULT, dict(DEFAULT, allowUnknown=True), dict(DEFAULT, checkUserDefined=False), dict(DEFAULT, outOfOrder=False),
            dict(DEFAULT, rejectInvalid=False), dict(DEFAULT, haveValues=False),
            {'outOfOrder': False, 'haveValues': False, 'rejectInvalid': False, 'allowUnknown': True, 'checkUserDefined': False}]
STRINGY = {'STRING', 'MULTIPLEVALUESTRING', 'MULTIPLESTRINGVALUE', 'MULTIPLECHARVALUE', 'CHAR', 'CURRENCY', 'MONTHYEAR', 'LOCALMKTDATE', 'DATE',
           'EXCHANGE', 'LANGUAGE', 'COUNTRY', 'UTCTIMEONLY', 'UTCDATEONLY', 'UTCDATE', 'TZTIMEONLY', 'TZTIMESTAMP'}
INTY = {'LENGTH', 'DAYOFMONTH', 'NUMINGROUP', 'SEQNUM', 'INT'}
FLOATY = {'QTY', 'QUANTITY', 'AMT', 'PRICE', 'PRICEOFFSET', 'PERCENTAGE', 'FLOAT'}
DATAY = {'DATA', 'XMLDATA'}


class Spec:
    def __init__(self, name):
        self.name = name
        self.doc = xmlwalk.load(os.path.join(common.REPO, 'spec', name + '.xml'))
        self.byname = {f['name']: f for f in self.doc['fields']}
        self.bynum = {f['num']: f for f in self.doc['fields']}
        self.comps = {c['name']: c['parts'] for c in self.doc['components']}

    def value(self, f, k=0):
        t = f['type']
        if f['enums']:
            if t.startswith('MULTIPLE') and len(f['enums']) > 1:
                return f['enums'][0] + ' ' + f['enums'][1]
            return f['enums'][k % len(f['enums'])]
        if t in INTY:
            return '1'
        if t in FLOATY:
            return '1.5'
        if t == 'BOOLEAN':
            return 'Y'
        if t in ('UTCTIMESTAMP', 'TIME'):
            return '20240101-12:00:00'
        if t == 'CHAR':
            return 'A'
        return 'x%d' % k

    def is_data(self, part):
        f = self.byname.get(part['name'])
        return f is not None and f['type'] in DATAY

    def expand(self, parts):
        """components expanded in place; groups kept as nodes"""
        out = []
        for p in parts:
            if p['k'] == 'component':
                for q in self.expand(self.comps[p['name']]):
                    out.append(dict(q, req=q['req'] and p['req']) if False else (q if p['req'] else dict(q, req=False)))
            else:
                out.append(p if p['k'] == 'field' else dict(p, parts=self.expand(p['parts'])))
        return out

    def instance(self, parts, optional, rng, depth=0):
        """list of wire fields for a parts list; optional: include optional members too"""
        fields = []
        ex = self.expand(parts)
        skip_next_len = set()
        for i, p in enumerate(ex):
            f = self.byname[p['name']]
            take = p['req'] or (optional and rng.random() < 0.6 and depth < 2)
            if f['type'] in DATAY or (f['type'] == 'LENGTH' and i + 1 < len(ex) and self.byname[ex[i + 1]['name']]['type'] in DATAY):
                if not p['req']:
                    continue
                # a required length/data pair: keep them consistent
                if f['type'] == 'LENGTH':
                    fields.append((f['num'], '1'))
                else:
                    fields.append((f['num'], 'd'))
                continue
            if not take:
                continue
            if p['k'] == 'group':
                if not p['parts']:
                    continue
                n = 1 if not optional else rng.choice([1, 2])
                if f['enums'] and str(n) not in f['enums']:
                    # a counter with an enumeration (e.g. NoSides 1/2): the count must be one of its values
                    ok = [int(e) for e in f['enums'] if e.isdigit() and 1 <= int(e) <= 2]
                    if not ok:
                        if p['req']:
                            raise Unconforming()
                        continue
                    n = ok[0]
                entries = []
                for j in range(n):
                    e = self.instance_entry(p['parts'], optional, rng, depth + 1, j)
                    entries.append(e)
                fields.append((f['num'], str(n), 'count', [len(e) for e in entries]))
                for e in entries:
                    fields += e
            else:
                fields.append((f['num'], self.value(f)))
        return fields

    def instance_entry(self, parts, optional, rng, depth, j):
        ex = parts
        out = []
        first = True
        for i, p in enumerate(ex):
            f = self.byname[p['name']]
            if f['type'] in DATAY or (f['type'] == 'LENGTH' and i + 1 < len(ex) and self.byname[ex[i + 1]['name']]['type'] in DATAY):
                if not (p['req'] or first):
                    continue
                out.append((f['num'], '1' if f['type'] == 'LENGTH' else 'd'))
                first = False
                continue
            take = first or p['req'] or (optional and rng.random() < 0.5 and depth < 2)
            first = False
            if not take:
                continue
            if p['k'] == 'group':
                if not p['parts']:
                    continue
                e = self.instance_entry(p['parts'], optional, rng, depth + 1, 0)
                out.append((f['num'], '1', 'count', [len(e)]))
                out += e
            else:
                out.append((f['num'], self.value(f, j)))
        return out


class Unconforming(Exception):
    """the generator cannot build a conforming instance of this shape"""


def strip(fields):
    return [(f[0], f[1]) for f in fields]


def make_cases(spec, tspec, rng, msgtypes, adoc_i, tdoc_i, quick, skipped):
    cases = []
    begin = 'FIXT.1.1' if spec.name.startswith('FIX50') else BEGIN[spec.name]
    specname = ('FIXT:' + spec.name) if spec.name.startswith('FIX50') else spec.name
    tags_in_doc = set(spec.bynum) | set(tspec.bynum)
    hdr_defined = deep_tags(tspec, tspec.doc['header']) | deep_tags(tspec, tspec.doc['trailer'])

    def add(mt, body, kind, tag, settings, hdr_extra=None, raw_fields=None):
        hdr = [(8, begin), (9, '0'), (35, mt), (49, 'A'), (56, 'B'), (34, '2'), (52, '20240101-12:00:00')]
        allf = raw_fields if raw_fields is not None else hdr + strip(body) + [(10, '000')]
        raw = fixgen.raw_build(allf)
        # wire truth with computed 9/10
        sc = []
        for part in raw.split(fixgen.SOH)[:-1]:
            t, _, v = part.partition('=')
            sc.append([int(t), v])
        cases.append({'spec': specname, 'adoc': adoc_i, 'tdoc': tdoc_i, 'msgtype': mt, 'fields': sc, 'defect': {'k': kind, 'tag': tag},
                      'settings': settings, 'bytes': list(raw.encode('latin1'))})
    mt_enum = set(tspec.bynum[35]['enums']) if 35 in tspec.bynum else set()
    for m in msgtypes:
        mt = m['msgtype']
        if mt_enum and mt not in mt_enum:
            # the transport specification's MsgType enumeration does not list this type (FIXT11.xml stops at
            # the FIX 5.0 types): under it the message is not conforming, whatever the body
            skipped.append(mt)
            continue
        for optional in (False, True):
            try:
                body = spec.instance(m['parts'], optional, rng)
            except Unconforming:
                continue
            if any(f[0] in hdr_defined for f in body):
                continue        # a body part that is also a header field: ambiguous, skip this variant
            tags = [f[0] for f in body]
            if len(set(t for t in tags)) != len(tags) and not any(len(f) > 2 for f in body):
                continue
            sts = [DEFAULT] if quick and optional else SETTINGS
            for st in sts:
                add(mt, body, 'none', 0, st)
            hdr = [(8, begin), (9, '0'), (35, mt), (49, 'A'), (56, 'B'), (34, '2'), (52, '20240101-12:00:00')]
            plain = strip(body)
            top = top_level(body)
            # --- single defects (default settings, and the setting that relaxes the check)
            add('ZZ', body, 'msgtype', 0, DEFAULT)
            ex = spec.expand(m['parts'])
            reqtags = [spec.byname[p['name']]['num'] for p in ex if p['req']]
            for t in rng.sample(reqtags, min(2, len(reqtags))):
                nb = remove_top(body, t)
                if nb is not None:
                    add(mt, nb, 'required', t, DEFAULT)
                    add(mt, nb, 'required', t, SETTINGS[-1])
            add(mt, body, 'required', 49, DEFAULT, raw_fields=[f for f in hdr if f[0] != 49] + plain + [(10, '000')])
            # unknown tags
            for ut in (4990, 9876, 4999, 5000, 5001):        # around the first user-defined tag
                if ut not in tags_in_doc:
                    for st in (DEFAULT, SETTINGS[1], SETTINGS[2], SETTINGS[4]) + ((dict(DEFAULT, allowUnknown=True, checkUserDefined=False),) if ut in (4999, 5000, 5001) else ()):
                        add(mt, body + [(ut, 'u')], 'invalidtag', ut, st)
                    # the same tag twice where a setting tolerates the tag itself: still a duplicate
                    add(mt, body + [(ut, 'u'), (ut, 'w')], 'dup_tolerated', ut, SETTINGS[1] if ut < 5000 else SETTINGS[2])
            # a dictionary field not defined for this message
            mdeep = deep_tags(spec, m['parts'])
            cand = [f for f in spec.doc['fields'] if f['num'] not in mdeep and f['num'] not in hdr_defined and f['type'] in STRINGY and not f['enums']
                    and f['num'] not in (10, 93, 89)]
            if cand:
                nf = rng.choice(cand)
                for st in (DEFAULT, SETTINGS[1], SETTINGS[4]):
                    add(mt, body + [(nf['num'], 'x')], 'notdefined', nf['num'], st)
                add(mt, body + [(nf['num'], 'x'), (nf['num'], 'y')], 'dup_tolerated', nf['num'], SETTINGS[1])
            # value defects on top-level plain body fields
            idx_plain = [i for i, f in enumerate(body) if len(f) == 2 and top[i]]
            typed = [i for i in idx_plain if spec.bynum[body[i][0]]['type'] in INTY | FLOATY | {'BOOLEAN', 'UTCTIMESTAMP'} and not spec.bynum[body[i][0]]['enums']]
            for i in rng.sample(typed, min(2, len(typed))):
                nb = list(body)
                nb[i] = (body[i][0], 'x!')
                add(mt, nb, 'badvalue', body[i][0], DEFAULT)
                add(mt, nb, 'badvalue', body[i][0], SETTINGS[4])
                # near misses of the declared type (texts other parsers would take)
                ty = spec.bynum[body[i][0]]['type']
                near = (['NaN', 'Inf', '-Inf', 'Infinity', '0x1p4', '1e5', '+1.5', '1_0'] if ty in FLOATY else
                        ['+1', '1.0', '0x10', '1e2', '1_0', ' 1'] if ty in INTY else
                        ['y', 'n', 'true', '1', 'YES'] if ty == 'BOOLEAN' else
                        ['20240101-12:00', '20240101T12:00:00', '20240101-12:00:00,123', '2024-01-01 12:00:00', '20241301-12:00:00'])
                for v in rng.sample(near, 2):
                    nb = list(body)
                    nb[i] = (body[i][0], v)
                    add(mt, nb, 'badvalue', body[i][0], DEFAULT)
            enum = [i for i in idx_plain if spec.bynum[body[i][0]]['enums']]
            for i in rng.sample(enum, min(2, len(enum))):
                nb = list(body)
                nb[i] = (body[i][0], '~')
                add(mt, nb, 'enum', body[i][0], DEFAULT)
                add(mt, nb, 'enum', body[i][0], SETTINGS[4])
            stringy = [i for i in idx_plain if spec.bynum[body[i][0]]['type'] == 'STRING' and not spec.bynum[body[i][0]]['enums']]
            for i in rng.sample(stringy, min(1, len(stringy))):
                nb = list(body)
                nb[i] = (body[i][0], '')
                add(mt, nb, 'emptyvalue', body[i][0], DEFAULT)
                add(mt, nb, 'emptyvalue', body[i][0], SETTINGS[5])
                add(mt, body[:i + 1] + [body[i]] + body[i + 1:], 'duplicate', body[i][0], DEFAULT)
                add(mt, body[:i + 1] + [body[i]] + body[i + 1:], 'duplicate', body[i][0], SETTINGS[4])
            # section order: SenderSubID (a header field) after the first body field
            if plain:
                add(mt, body, 'sectionorder', 50, DEFAULT, raw_fields=hdr + plain[:1] + [(50, 'S')] + plain[1:] + [(10, '000')])
                add(mt, body, 'sectionorder', 50, SETTINGS[3], raw_fields=hdr + plain[:1] + [(50, 'S')] + plain[1:] + [(10, '000')])
            # groups
            gi = [i for i, f in enumerate(body) if len(f) > 2 and top[i]]
            for i in gi[:2]:
                nb = list(body)
                wrong = str(int(body[i][1]) + 1)
                cen = spec.bynum[body[i][0]]['enums']
                if cen and wrong not in cen:
                    alt = [e for e in cen if e.isdigit() and e != body[i][1] and int(e) > 0]
                    wrong = alt[0] if alt else None
                if wrong is not None:
                    nb[i] = (body[i][0], wrong)
                    add(mt, nb, 'groupcount', body[i][0], DEFAULT)
                    add(mt, nb, 'groupcount', body[i][0], SETTINGS[4])
                # the count stays, every entry is gone
                j = i + 1
                while j < len(body) and not top[j]:
                    j += 1
                add(mt, body[:i + 1] + body[j:], 'groupcount', body[i][0], DEFAULT)
                first_len = body[i][3][0]
                if first_len >= 2 and len(body[i + 1]) == 2 and len(body[i + 2]) == 2:
                    nb = list(body)
                    nb[i + 1], nb[i + 2] = nb[i + 2], nb[i + 1]
                    add(mt, nb, 'grouporder', body[i][0], DEFAULT)
    return cases


def top_level(body):
    """for each wire field of an instance: is it a top-level field (not inside a group)?"""
    top = []
    i = 0
    n = len(body)

    def skip(j):
        # j at a count field: returns index after the whole group
        sizes = body[j][3]
        k = j + 1
        for s in sizes:
            end = k + s
            while k < end:
                if len(body[k]) > 2:
                    k = skip(k)
                else:
                    k += 1
        return k
    while i < n:
        top.append(True)
        if len(body[i]) > 2:
            j = skip(i)
            top += [False] * (j - i - 1)
            i = j
        else:
            i += 1
    return top


def remove_top(body, tag):
    top = top_level(body)
    for i, f in enumerate(body):
        if top[i] and f[0] == tag:
            if len(f) > 2:
                j = i + 1
                while j < len(body) and not top[j]:
                    j += 1
                return body[:i] + body[j:]
            return body[:i] + body[i + 1:]
    return None


def deep_tags(spec, parts):
    out = set()
    for p in parts:
        if p['k'] == 'component':
            out |= deep_tags(spec, spec.comps[p['name']])
        elif p['k'] == 'group':
            out.add(spec.byname[p['name']]['num'])
            out |= deep_tags(spec, p['parts'])
        else:
            out.add(spec.byname[p['name']]['num'])
    return out


def run(ctx):
    quick = ctx.tier == 'quick'
    rng = random.Random(ctx.seed)
    ctx.build()
    names = SPECS if not quick else list(dict.fromkeys(['FIX44', SPECS[ctx.seed % len(SPECS)], 'FIX50SP2' if ctx.seed % 2 else 'FIX42']))[:2]
    docs = []
    specs = {}
    tspec = Spec('FIXT11')
    docs.append(tspec.doc)
    tdoc_fixt = 1
    cases = []
    nmsg = 0
    skipped = []
    for n in names:
        sp = Spec(n)
        docs.append(sp.doc)
        idx = len(docs)
        fixt = n.startswith('FIX50')
        msgs = [m for m in sp.doc['messages']]
        if quick:
            msgs = rng.sample(msgs, min(10, len(msgs)))
        nmsg += len(msgs)
        cases += make_cases(sp, tspec if fixt else sp, rng, msgs, idx, tdoc_fixt if fixt else idx, quick, skipped)
    if skipped:
        ctx.notes.append('%d message types skipped: not in the MsgType enumeration of the transport specification (FIXT11.xml), e.g. %s' % (len(skipped), sorted(set(skipped))[:8]))
    cp = os.path.join(ctx.scratch, 'cases.ndjson')
    common.ndjson_write(cp, cases)
    tp = os.path.join(ctx.scratch, 'trace.ndjson')
    p = ctx.run_vh(['validate', '-cases', cp, '-out', tp, '-repo', common.REPO], timeout=3000)
    if p.returncode != 0:
        raise common.Infra('vh validate failed: ' + p.stderr[-1500:])
    rows = common.ndjson_read(tp)
    for r_ in rows:
        if 'panic' in r_:
            ctx.report({'family': 'validator', 'clause': 'panic', 'defect': r_['defect']['k']}, 'validation panics: %s (%s %s)' % (r_['panic'], r_['spec'], r_['msgtype']), {'case': r_})
    clean = [r_ for r_ in rows if 'panic' not in r_]
    # M (shared operators): a light run so that states/transitions describe a real TLC run of this check
    docs_json = json.dumps(docs)
    size = (len(clean) + 15) // 16
    mism, gen = [], []
    with ThreadPoolExecutor(max_workers=8) as ex:
        for m, g in ex.map(lambda ch: validate(ctx, ch, docs_json), [clean[i:i + size] for i in range(0, len(clean), size)]):
            mism += m
            gen += g
    if gen:
        ch, g = gen[0]
        row = ch[int(g[1]) - 1]
        raise common.Infra('case generator produced a message that does not carry exactly its claimed defect (%d cases), e.g. %s %s defect=%s struct=%s fields=%s' % (
            len(gen), row['spec'], row['msgtype'], row['defect'], sorted(g[2]), row['fields'][:40]))
    for ch, m in mism:
        row = ch[int(m[1]) - 1]
        for c in sorted(m[2]):
            relaxed = [k for k, v in row['settings'].items() if v != DEFAULT[k]]
            ftype = None
            t = row['defect']['tag']
            sig = {'family': 'validator', 'clause': c, 'defect': row['defect']['k'], 'relaxed': relaxed,
                   'multi_value': any(' ' in f[1] for f in row['fields'] if f[0] not in (52, 60)) and row['obs'].get('reason') == 5}
            ctx.report(sig, 'C15 clause %s: %s %s defect=%s settings(relaxed)=%s -> ok=%s reason=%s tag=%s %s; fields=%s' % (
                c, row['spec'], row['msgtype'], row['defect'], relaxed, row['obs']['ok'], row['obs']['reason'], row['obs']['tag'], row['obs'].get('text', row['obs'].get('parseErr', '')),
                row['fields'][:30]), {'case': {k: v for k, v in row.items() if k != 'obs'}})
    negative_control(ctx, clean, docs_json)
    kinds = {}
    for c in cases:
        kinds[c['defect']['k']] = kinds.get(c['defect']['k'], 0) + 1
    ctx.cov.update({
        'states': 1, 'transitions': 1, 'traces_validated_against_impl': len(clean), 'evaluations': len(rows),
        'distinct_nontrivial': len(set((c['spec'], c['msgtype'], json.dumps(c['fields']), json.dumps(c['settings'])) for c in cases)),
        'rule': 'one case = one generated message (conforming, or with one defect of one kind at one eligible position) x validator settings; %d message types of %s' % (nmsg, names),
        'cases_by_defect_kind': kinds, 'samples': [{'spec': rows[0]['spec'], 'msgtype': rows[0]['msgtype'], 'fields': rows[0]['fields'][:12], 'obs': rows[0]['obs']}],
        'exhaustive': False,
    })
    ctx.assumptions += ['value well-formedness of the generated conforming instances is the generator\'s (types and enumerations taken from the specification file); their structural conformance is re-derived by TLC from the documents',
                        'for a member-order defect inside a group any rejection is accepted (which reason names it is left open)',
                        'with ValidateFieldsHaveValues=N / ValidateFieldsOutOfOrder=N the corresponding defects are not judged (unspecified)']


def validate(ctx, rows, docs_json):
    content = '\n'.join(json.dumps({k: v for k, v in r.items() if k != 'bytes'}, separators=(',', ':')) for r in rows) + '\n'
    mod = '---- MODULE ValidatorTraceX ----\nEXTENDS ValidatorTrace\nMCDocs == <<>>\n====\n'
    cfg = 'SPECIFICATION TraceSpec\nCONSTANTS\n Docs <- MCDocs\nPOSTCONDITION AllConsumed\nCHECK_DEADLOCK FALSE\n'
    r = ctx.tlc('ValidatorTraceX.tla', 'tr.cfg', workers=1, timeout=3000, javaopts='-Xss512m',
                files={'trace.ndjson': content, 'tr.cfg': cfg, 'ValidatorTraceX.tla': mod, 'docs.json': docs_json})
    if r['rc'] != 0 or 'Model checking completed. No error has been found.' not in r['out']:
        raise common.Infra('ValidatorTrace did not run to completion:\n' + r['out'][-2500:])
    return [(rows, m) for m in common.printed(r['out'], 'MISMATCH')], [(rows, m) for m in common.printed(r['out'], 'GENERATOR')]


def negative_control(ctx, rows, docs_json):
    import copy
    head = copy.deepcopy([r_ for r_ in rows if r_['defect']['k'] == 'none' and r_['obs']['ok']][:4])
    head[1]['obs']['ok'] = False
    head[1]['obs']['reason'] = 1
    m, g = validate(ctx, head, docs_json)
    if not any(int(x[1][1]) == 2 and 'acceptsConforming' in x[1][2] for x in m):
        raise common.Infra('negative control failed: a rejected conforming message was accepted by the monitor')
    ctx.notes.append('negative control: a (fabricated) rejection of a conforming message is flagged by ValidatorTrace')


def replay(ctx, path):
    with open(path) as f:
        d = json.load(f)
    print(json.dumps(d['replay'])[:3000])
    raise common.Infra('C15 replays carry the generated case (spec, msgtype, fields, defect, settings)')
