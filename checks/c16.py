"""C16 - every message store behaves like the same abstract store, durably.

M: TLC checks Store.tla (invariants + action properties) on a bounded configuration.
G: the single-session graph is dumped (dot, action labels) and covered by scripts (edge cover,
   1-switch tours); two-session scripts interleave two independent tours; random walks extend
   beyond the exhaustive bounds.
R: vh store executes the scripts on memory / file / file-without-sync / sqlite stores.
V: TLC validates the recorded traces against Store!Apply (StoreTrace.tla).
"""
import json
import os
import random
import re

from lib import common, graph

LEVEL = 'model_checking'
KINDS_QUICK = ['memory', 'file', 'sqlite']
KINDS_THOROUGH = ['memory', 'file', 'filenosync', 'sqlite']

MC_CFG = '''SPECIFICATION Spec
CONSTANTS
  SIDs = %(sids)s
  MaxCtr = %(maxctr)d
  MaxKeyN = %(maxkey)d
  Bodies = %(bodies)s
  MaxCt = %(maxct)d
VIEW View
%(props)s
CHECK_DEADLOCK FALSE
'''
PROPS = 'INVARIANTS TypeOK GetInRangeAscending\nPROPERTIES ResetForgets NonInterference OnlyResetForgets ReadsArePure\n'


def gen_scripts(ctx, g, rng):
    quick = ctx.tier == 'quick'
    scripts = []

    def is_read(e):
        return False
    cover = g.edge_cover(maxlen=40, rng=rng)
    for p in cover:
        scripts.append([g.edge_call(e)[1] for e in p])
    sw, cov, tot = g.switch_cover(maxlen=40, budget=(30000 if quick else 400000), rng=rng)
    for p in sw:
        scripts.append([g.edge_call(e)[1] for e in p])
    return scripts, len(cover), cov, tot


def random_walks(rng, n, length, maxkey=12):
    """operation sequences beyond the exhaustive bounds (higher counters, more messages, wider ranges)"""
    out = []
    for _ in range(n):
        steps = []
        hi = {'s1': 0, 's2': 0}
        for _ in range(length):
            sid = rng.choice(['s1', 's1', 's2'])
            k = rng.choice(['SetSender', 'SetTarget', 'IncrSender', 'IncrTarget', 'Save', 'Save', 'SaveIncr', 'SaveIncr',
                            'Get', 'Get', 'Iter', 'Refresh', 'Reopen', 'Reset'])
            if k in ('SetSender', 'SetTarget'):
                ev = {'k': k, 'v': rng.choice([1, 2, 3, 7, 10, 99, 1000, 123456789])}
            elif k in ('Save', 'SaveIncr'):
                n_ = hi[sid] + rng.choice([1, 1, 1, 2, 5])
                hi[sid] = n_
                ev = {'k': k, 'n': n_, 'm': 'm%d' % rng.randint(1, 6)}
            elif k == 'Get':
                b = rng.randint(0, hi[sid] + 2)
                ev = {'k': k, 'b': b, 'e': rng.choice([b - 1, b, b + 1, b + 3, hi[sid], hi[sid] + 5, 0])}
                if ev['e'] < 0:
                    ev['e'] = 0
            elif k == 'Iter':
                ev = {'k': k, 'b': rng.randint(0, 3), 'e': hi[sid] + 1, 'a': rng.randint(0, 3)}
            else:
                ev = {'k': k}
                if k == 'Reset':
                    hi[sid] = 0
            steps.append({'sid': sid, 'ev': ev})
        out.append(steps)
    return out


def run(ctx):
    quick = ctx.tier == 'quick'
    rng = random.Random(ctx.seed)
    ctx.build()

    # ---- M: exhaustive model checking, two sessions sharing one medium
    two = dict(sids='{"s1", "s2"}', maxctr=2 if quick else 3, maxkey=2 if quick else 3,
               bodies='{"m1", "m2"}', maxct=1, props=PROPS)
    r = ctx.tlc('Store.tla', 'mc.cfg', workers=16, files={'mc.cfg': MC_CFG % two}, timeout=900,
                extra=['-coverage', '1'] if quick else [])
    ctx.tlc_ok(r, 'Store M (two sessions)')
    m_states, m_trans = r['distinct'], r['generated']

    # ---- G: single-session graph -> scripts
    one = dict(sids='{"s1"}', maxctr=3, maxkey=3, bodies='{"m1", "m2"}', maxct=1, props='')
    r1 = ctx.tlc('Store.tla', 'g.cfg', workers=4, files={'g.cfg': MC_CFG % one},
                 extra=['-dump', 'dot,actionlabels', 'g.dot'], timeout=300)
    ctx.tlc_ok(r1, 'Store G (one session)')
    g = graph.Graph(os.path.join(r1['dir'], 'g.dot'))
    if g.n != r1['distinct']:
        raise common.Infra('dot dump has %d nodes, TLC reported %d' % (g.n, r1['distinct']))
    paths, n_cover, pairs_cov, pairs_tot = gen_scripts(ctx, g, rng)
    scripts = []
    for p in paths:
        scripts.append([{'sid': a[0], 'ev': a[1]} for a in p])
    # two-session interleavings of independent tours (non-interference on a shared medium)
    n_inter = 60 if quick else 600
    for _ in range(n_inter):
        a, b = rng.choice(paths), rng.choice(paths)
        ia = ib = 0
        steps = []
        while ia < len(a) or ib < len(b):
            if ib >= len(b) or (ia < len(a) and rng.random() < 0.5):
                steps.append({'sid': 's1', 'ev': a[ia][1]})
                ia += 1
            else:
                steps.append({'sid': 's2', 'ev': b[ib][1]})
                ib += 1
        scripts.append(steps)
    walks = random_walks(rng, 40 if quick else 600, 40)
    scripts.extend(walks)

    kinds = KINDS_QUICK if quick else KINDS_THOROUGH
    total_traces = 0
    total_steps = 0
    distinct_pairs = set()
    samples = []
    for kind in kinds:
        ks = scripts
        if kind == 'sqlite' and quick:
            # sqlite is the slow store: a seed-chosen third of the graph scripts, all walks
            ks = [s for i, s in enumerate(scripts) if (i + ctx.seed) % 3 == 0] + walks
        sp = os.path.join(ctx.scratch, 'scripts_%s.ndjson' % kind)
        common.ndjson_write(sp, [{'id': '%s-%d' % (kind, i), 'steps': s} for i, s in enumerate(ks)])
        tp = os.path.join(ctx.scratch, 'trace_%s.ndjson' % kind)
        p = ctx.run_vh(['store', '-kind', kind, '-scripts', sp, '-out', tp, '-repo', common.REPO,
                        '-seed', str(ctx.seed)], timeout=3000)
        if p.returncode != 0:
            raise common.Infra('vh store %s failed: %s' % (kind, p.stderr[-2000:]))
        rows = common.ndjson_read(tp)
        total_traces += len(ks)
        total_steps += sum(len(s) for s in ks)
        base = validate(ctx, kind, tp, rows)
        if kind == kinds[0]:
            negative_control(ctx, kind, rows, set(int(m[1]) for m in base))
        if len(samples) < 3:
            samples.append({'store': kind, 'trace': [r_ for r_ in rows[1:6]]})
    for s in scripts:
        prev = None
        for st in s:
            k = json.dumps(st['ev'], sort_keys=True)
            distinct_pairs.add((prev, k))
            prev = k

    ctx.cov.update({
        'states': m_states, 'transitions': m_trans,
        'graph_states': g.n, 'graph_edges': g.m,
        'edge_cover_scripts': n_cover, 'switch_pairs_covered': pairs_cov, 'switch_pairs_total': pairs_tot,
        'traces_validated_against_impl': total_traces,
        'evaluations': total_steps,
        'distinct_nontrivial': len(distinct_pairs),
        'rule': 'a case is one store call executed on a real store; distinct = distinct (previous event, event) pairs over all scripts',
        'stores': kinds,
        'samples': samples,
        'exhaustive': False,
        'model': 'Store.tla: two sessions, counters<=%d, numbers<=%d, 2 bodies, 1 reset (M); single-session graph counters<=3, numbers<=3 fully edge-covered on every store (G/R/V)' % (two['maxctr'], two['maxkey']),
    })
    ctx.assumptions += ['save numbers ascend within an epoch (as the property states)',
                        'creation time is compared as an ordinal: unchanged by everything but Reset, strictly later after Reset',
                        'Mongo store not covered (no server in the sandbox; the statement lists memory, file and SQL)']


def validate(ctx, kind, trace_path, rows, control=False):
    """V: TLC replays the recorded trace through Store!Apply"""
    with open(trace_path) as f:
        content = f.read()
    r = ctx.tlc('StoreTrace.tla', 'StoreTrace.cfg', workers=1, files={'trace.ndjson': content}, timeout=1800)
    out = r['out']
    mism = common.printed(out, 'MISMATCH')
    if r['rc'] != 0 or 'Model checking completed. No error has been found.' not in out:
        raise common.Infra('StoreTrace did not run to completion on the %s trace (rc=%d):\n%s' % (kind, r['rc'], out[-3000:]))
    if control:
        return mism
    for m in mism:
        line = int(m[1])
        row = rows[line - 1]
        # the whole script up to the failing step is the replay
        start = line - 1
        while start > 0 and rows[start]['ev'].get('k') != 'TraceReset':
            start -= 1
        steps = [{'sid': x['sid'], 'ev': x['ev']} for x in rows[start + 1:line]]
        sig = {'family': 'store', 'store': kind, 'op': row['ev'].get('k'), 'err': bool(row['ret'].get('err'))}
        what = '%s store: %s returned %s / %s, abstract store says %s' % (
            kind, json.dumps(row['ev']), json.dumps(row['ret']), json.dumps(row['post']), json.dumps(m[4:])[:300])
        ctx.report(sig, what, {'kind': kind, 'steps': steps, 'observed': row})
    return mism


def negative_control(ctx, kind, rows, baseline):
    """binding demonstration (DESIGN 4.4): one corrupted field must be rejected at exactly that line"""
    import copy
    head = copy.deepcopy(rows[:40])
    k = next(i for i, r_ in enumerate(head) if r_['ev'].get('k') not in ('TraceReset',) and i > 3)
    head[k]['post']['ns'] += 1
    tp = os.path.join(ctx.scratch, 'control.ndjson')
    common.ndjson_write(tp, head)
    mism = validate(ctx, kind, tp, head, control=True)
    flagged = set(int(m[1]) for m in mism)
    if k + 1 not in flagged or not (flagged - {k + 1}) <= baseline:
        raise common.Infra('negative control failed: corrupted line %d, validator flagged %s' % (k + 1, [m[1] for m in mism]))
    ctx.notes.append('negative control: corrupted counter at trace line %d rejected by StoreTrace' % (k + 1))


def replay(ctx, path):
    with open(path) as f:
        d = json.load(f)
    rp = d['replay']
    ctx.build()
    sp = os.path.join(ctx.scratch, 'scripts.ndjson')
    common.ndjson_write(sp, [{'id': 'replay', 'steps': rp['steps']}])
    tp = os.path.join(ctx.scratch, 'trace.ndjson')
    p = ctx.run_vh(['store', '-kind', rp['kind'], '-scripts', sp, '-out', tp, '-repo', common.REPO, '-seed', str(d.get('seed', 1))])
    if p.returncode != 0:
        raise common.Infra(p.stderr)
    rows = common.ndjson_read(tp)
    for r_ in rows:
        print(json.dumps(r_))
    validate(ctx, rp['kind'], tp, rows)
    ctx.cov.update({'states': 1, 'transitions': 1, 'traces_validated_against_impl': 1, 'samples': [rows[-1]]})
