"""C05 - two engines deliver every application message exactly once across disconnects.

M: TLC model-checks Pair.tla (two Engine!Step machines, in-flight queues, sends, deliveries, cuts,
   reconnects, timer events, restarts on the persistent store) for the safety invariant and for
   completion after the deterministic settling operator Stabilize(4).
G: the bounded state graph is dumped and covered by scripts; random fault schedules go beyond it.
R: vh pair steps two REAL sessions (initiator/acceptor built by the real factory) against each
   other over a scripted network - memory stores for cut-only schedules, file stores when an engine
   is discarded and recreated - and then executes the same settling rounds.
V: TLC evaluates C05 safety on every step and completion on the settled state, and compares the two
   projected engine states with the model's (PairTrace.tla).
"""
import json
import os
import random
from concurrent.futures import ThreadPoolExecutor

from lib import common, graph

LEVEL = 'model_checking'
CFG = '''SPECIFICATION Spec
CONSTANTS
  MaxSends = %d
  MaxCuts = %d
  MaxRestarts = %d
  MaxFlight = 3
  MaxTimers = %d
  Chunk = %d
VIEW View
INVARIANTS C05_Safety C05_Completion
CHECK_DEADLOCK FALSE
'''


def label_to_ev(call):
    name, args = call
    if name == 'AppSend':
        return {'k': 'AppSend', 'n': args[0]}
    if name == 'Deliver':
        return {'k': 'Deliver', 'n': args[0]}
    if name == 'Restart':
        return {'k': 'Restart', 'n': args[0]}
    if name == 'Timer':
        return {'k': 'Timer', 'n': args[0], 'e': args[1]}
    if name in ('Cut', 'Reconnect'):
        return {'k': name}
    raise common.Infra('unexpected edge label %s' % name)


def random_schedule(rng, restarts):
    steps = [{'k': 'Reconnect'}]
    for _ in range(rng.randint(5, 40)):
        c = rng.random()
        if c < 0.35:
            steps.append({'k': 'AppSend', 'n': rng.choice('AB')})
        elif c < 0.75:
            steps.append({'k': 'Deliver', 'n': rng.choice('AB')})
        elif c < 0.83:
            steps.append({'k': 'Cut'})
        elif c < 0.91:
            steps.append({'k': 'Reconnect'})
        elif c < 0.97:
            steps.append({'k': 'Timer', 'n': rng.choice('AB'), 'e': rng.choice(['NeedHeartbeat', 'NeedHeartbeat', 'PeerTimeout'])})
        elif restarts:
            steps.append({'k': 'Restart', 'n': rng.choice('AB')})
    if restarts:
        # every restart schedule discards an engine at least once, somewhere after traffic has flowed
        for _ in range(rng.randint(1, 2)):
            steps.insert(rng.randint(len(steps) // 2, len(steps)), {'k': 'Restart', 'n': rng.choice('AB')})
    return steps


def run(ctx):
    quick = ctx.tier == 'quick'
    rng = random.Random(ctx.seed)
    ctx.build()
    # ---- M + G (cut-only graph)
    r = ctx.tlc('Pair.tla', 'p.cfg', workers=16, timeout=3000, extra=['-dump', 'dot,actionlabels', 'g.dot'],
                files={'p.cfg': CFG % ((2, 1, 0, 0, 0) if quick else (3, 2, 0, 0, 0))})
    ctx.tlc_ok(r, 'Pair M (cuts)')
    g = graph.Graph(os.path.join(r['dir'], 'g.dot'))
    paths = g.edge_cover(maxlen=40, rng=rng)
    if not quick:
        paths = paths + g.switch_cover(maxlen=40, budget=60000, rng=rng)[0]
    states, trans = r['distinct'], r['generated']
    # M with restarts and timers (no dump)
    # measured: (3,1,1,1) 1.1 M distinct states in 71 s; (3,2,1,1) 8.4 M in 12 min; (2,2,1,2) more than 11 M, not finished in 15 min
    r2 = ctx.tlc('Pair.tla', 'p2.cfg', workers=16, timeout=5400, files={'p2.cfg': CFG % ((2, 1, 1, 1, 0) if quick else (3, 2, 1, 1, 0))})
    ctx.tlc_ok(r2, 'Pair M (restarts, timers)')
    states += r2['distinct']
    trans += r2['generated']
    # M with a ResendRequestChunkSize on both sides (recovery in chunks)
    r3 = ctx.tlc('Pair.tla', 'p3.cfg', workers=16, timeout=5400, files={'p3.cfg': CFG % ((3, 1, 0, 0, 2) if quick else (4, 2, 0, 0, 2))})
    ctx.tlc_ok(r3, 'Pair M (chunked recovery)')
    states += r3['distinct']
    trans += r3['generated']
    mem_scripts = [{'id': 'g%d' % i, 'steps': [label_to_ev(g.edge_call(e)) for e in p] + [{'k': 'Stabilize', 'rounds': 4}]} for i, p in enumerate(paths)]
    mem_scripts += [{'id': 'w%d' % i, 'steps': random_schedule(rng, False) + [{'k': 'Stabilize', 'rounds': 4}]} for i in range(200 if quick else 3000)]
    file_scripts = [{'id': 'f%d' % i, 'steps': random_schedule(rng, True) + [{'k': 'Stabilize', 'rounds': 4}]} for i in range(60 if quick else 800)]
    rows_all = []
    nviol = 0
    chunk_scripts = [dict(s_, id='c' + s_['id']) for s_ in mem_scripts if s_['id'].startswith('w')][:150 if quick else 2000]
    for store, scripts, chunk in (('memory', mem_scripts, 0), ('file', file_scripts, 0), ('memory', chunk_scripts, 2)):
        sp = os.path.join(ctx.scratch, 'scripts_%s%d.ndjson' % (store, chunk))
        common.ndjson_write(sp, scripts)
        tp = os.path.join(ctx.scratch, 'trace_%s%d.ndjson' % (store, chunk))
        p = ctx.run_vh(['pair', '-scripts', sp, '-out', tp, '-store', store, '-repo', common.REPO, '-chunk', str(chunk)], timeout=6000)
        if p.returncode != 0:
            raise common.Infra('vh pair failed: ' + p.stderr[-1500:])
        rows = common.ndjson_read(tp)
        for r_ in rows:
            if 'panic' in r_:
                ctx.report({'family': 'pair', 'clause': 'panic'}, 'pair driver step panicked: %s' % r_['panic'], {'store': store, 'script': r_['tr']})
        rows_all += rows
        chunks = split(rows, 8)
        viol, div = [], []
        with ThreadPoolExecutor(max_workers=8) as ex:
            for v, d in ex.map(lambda ch: validate(ctx, ch, chunk), chunks):
                viol += v
                div += d
        byid = {s['id']: s for s in scripts}
        for ch, m in viol:
            row = ch[int(m[1]) - 1]
            for c in sorted(m[2]):
                ctx.report({'family': 'pair', 'clause': c, 'store': store, 'chunk': chunk, 'restart': any(s['k'] == 'Restart' for s in byid[row['tr']]['steps'])},
                           'C05 clause %s (%s store) at step %s %s: gotA=%s subB=%s gotB=%s subA=%s a=%s b=%s' % (
                               c, store, row['i'], row['ev'], row['gotA'], row['subB'], row['gotB'], row['subA'], row['a'], row['b']),
                           {'store': store, 'steps': byid[row['tr']]['steps']})
        seen = set()
        for ch, m in div:
            tid = ch[int(m[1]) - 1]['tr']
            if tid not in seen:
                seen.add(tid)
                if len(seen) <= 3:
                    row = ch[int(m[1]) - 1]
                    ctx.notes.append('divergence in %s at step %s %s: observed a=%s b=%s gotA=%s gotB=%s flight=%s/%s ; model=%s' % (
                        tid, row['i'], row['ev'], row['a'], row['b'], row['gotA'], row['gotB'], row['flightAB'], row['flightBA'], json.dumps(m[2], default=str)[:500]))
        ctx.divergences += len(seen)
    live_rows = live(ctx, quick)
    negative_control(ctx, rows_all)
    settled = [r_ for r_ in rows_all if r_['ev'].get('k') == 'Settled']
    ctx.cov.update({
        'states': states, 'transitions': trans, 'graph_edges': g.m, 'traces_validated_against_impl': len(mem_scripts) + len(file_scripts),
        'evaluations': len(rows_all), 'distinct_nontrivial': len(set(json.dumps(s['steps']) for s in mem_scripts + file_scripts)),
        'rule': 'one trace = one fault schedule executed on two real sessions followed by the settling rounds; distinct schedules counted',
        'live_runs': len(live_rows), 'live_runs_with_restart': sum(1 for r_ in live_rows if 'restartI' in r_['events']),
        'live_messages': sum(len(r_['gotA']) + len(r_['gotI']) for r_ in live_rows),
        'messages_delivered': sum(len(r_['gotA']) + len(r_['gotB']) for r_ in settled),
        'samples': [{'steps': mem_scripts[0]['steps'][:8]}, {'settled': {k: settled[0][k] for k in ('gotA', 'gotB', 'subA', 'subB')}}], 'exhaustive': False,
    })
    ctx.assumptions += ['sequence resets disabled; FIX.4.2; forced schedules run on the synchronous two-engine driver (no real sockets, no wall-clock timers); '
                        'the real Acceptor/Initiator over loopback TCP run timed (not forced) schedules with HeartBtInt 1 s, and "the link stays up" means up to 90 s',
                        'a cut loses everything still in flight (any suffix, since deliveries may precede it); restarts only with the file store']


def live(ctx, quick):
    """timed schedules on the real Acceptor and Initiator over loopback TCP (several processes: the session
    registry is process wide), judged by PairLiveTrace.tla"""
    import subprocess
    procs = []
    nproc, runs = (4, 3) if quick else (8, 12)
    for k in range(nproc):
        tp = os.path.join(ctx.scratch, 'live_%d.ndjson' % k)
        procs.append((tp, subprocess.Popen([ctx.vh, 'live', '-out', tp, '-runs', str(runs), '-seed', str(ctx.seed * 100 + k)],
                                           stdout=subprocess.PIPE, stderr=subprocess.PIPE, text=True)))
    rows = []
    skipped = 0
    for tp, p in procs:
        try:
            out, err = p.communicate(timeout=3000)
        except subprocess.TimeoutExpired:
            p.kill()
            raise common.Infra('vh live timed out')
        if p.returncode != 0:
            fatal = [l_ for l_ in err.splitlines() if l_.startswith('fatal error:') or l_.startswith('panic:')]
            if fatal:
                ctx.report({'family': 'pairlive', 'clause': 'panic'}, 'the engines died in a live run: %s' % fatal[0], {'stderr_head': err[:1500]})
                continue
            raise common.Infra('vh live failed: ' + err[-1500:])
        skipped += sum(1 for l_ in err.splitlines() if l_.startswith('live: skipped:'))
        rows += common.ndjson_read(tp)
    if skipped:
        ctx.notes.append('%d live run(s) void (the engines did not log on in time)' % skipped)
    if not rows:
        raise common.Infra('no live run completed')
    void = [r_ for r_ in rows if not r_['converged'] and not (r_['onA'] and r_['onI'])]
    if void:
        ctx.notes.append('%d live run(s) ended with a side not logged on after 90 s of link up: not judged for completion' % len(void))
        if len(void) * 2 > len(rows):
            raise common.Infra('more than half of the live runs ended without both sides logged on')
    content = '\n'.join(json.dumps(r_, separators=(',', ':')) for r_ in rows) + '\n'
    cfg = 'SPECIFICATION TraceSpec\nPOSTCONDITION AllConsumed\nCHECK_DEADLOCK FALSE\n'
    v = ctx.tlc('PairLiveTrace.tla', 'lv.cfg', workers=1, timeout=1200, files={'trace.ndjson': content, 'lv.cfg': cfg})
    if v['rc'] != 0 or 'Model checking completed. No error has been found.' not in v['out']:
        raise common.Infra('PairLiveTrace did not run to completion:\n' + v['out'][-2500:])
    for m in common.printed(v['out'], 'VIOL'):
        row = rows[int(m[1]) - 1]
        for c in sorted(m[2]):
            ctx.report({'family': 'pairlive', 'clause': c, 'restart': 'restartI' in row['events']},
                       'C05 clause %s on the real Acceptor/Initiator over TCP (seed %s): events=%s sentI=%s gotA=%s sentA=%s gotI=%s logged on: %s/%s' % (
                           c, row['seed'], row['events'], row['sentI'], row['gotA'], row['sentA'], row['gotI'], row['onA'], row['onI']), {'live': row})
    # negative control: a lost delivery in a recorded run must be flagged
    import copy
    bad = copy.deepcopy(next(r_ for r_ in rows if r_['gotA'] and r_['onA'] and r_['onI']))
    bad['gotA'] = bad['gotA'][:-1]
    v2 = ctx.tlc('PairLiveTrace.tla', 'lv.cfg', workers=1, timeout=600, files={'trace.ndjson': json.dumps(bad) + '\n', 'lv.cfg': cfg})
    if not any('completion' in m[2] for m in common.printed(v2['out'], 'VIOL')):
        raise common.Infra('negative control failed: a lost delivery in a live run was accepted')
    return rows


def split(rows, n):
    size = max(1, len(rows) // n)
    out, cur = [], []
    for r_ in rows:
        if r_['ev'].get('k') == 'TraceReset' and len(cur) >= size:
            out.append(cur)
            cur = []
        cur.append(r_)
    if cur:
        out.append(cur)
    return out


def validate(ctx, rows, chunk=0):
    content = '\n'.join(json.dumps(r, separators=(',', ':')) for r in rows) + '\n'
    cfg = 'SPECIFICATION TraceSpec\nCONSTANTS\n MaxSends = 0\n MaxCuts = 0\n MaxRestarts = 0\n MaxFlight = 0\n MaxTimers = 0\n Chunk = %d\nPOSTCONDITION AllConsumed\nCHECK_DEADLOCK FALSE\n' % chunk
    r = ctx.tlc('PairTrace.tla', 'tr.cfg', workers=1, timeout=3000, javaopts='-Xss512m', files={'trace.ndjson': content, 'tr.cfg': cfg})
    if r['rc'] != 0 or 'Model checking completed. No error has been found.' not in r['out']:
        raise common.Infra('PairTrace did not run to completion:\n' + r['out'][-2500:])
    return [(rows, m) for m in common.printed(r['out'], 'VIOL')], [(rows, m) for m in common.printed(r['out'], 'DIVERGE')]


def negative_control(ctx, rows):
    import copy
    i0 = next(i for i, r_ in enumerate(rows) if r_['ev'].get('k') == 'Settled' and r_['gotB'])
    start = i0
    while rows[start]['ev'].get('k') != 'TraceReset':
        start -= 1
    head = copy.deepcopy(rows[start:i0 + 1])
    head[-1]['gotB'] = head[-1]['gotB'][:-1]
    v, d = validate(ctx, head)
    if not any('completion' in m[2] for _, m in v):
        raise common.Infra('negative control failed: a lost delivery was accepted')
    ctx.notes.append('negative control: a dropped delivery in a recorded settled state is flagged (completion)')


def replay(ctx, path):
    with open(path) as f:
        d = json.load(f)
    ctx.build()
    sp = os.path.join(ctx.scratch, 's.ndjson')
    common.ndjson_write(sp, [{'id': 'replay', 'steps': d['replay']['steps']}])
    tp = os.path.join(ctx.scratch, 't.ndjson')
    p = ctx.run_vh(['pair', '-scripts', sp, '-out', tp, '-store', d['replay'].get('store', 'memory'), '-repo', common.REPO])
    rows = common.ndjson_read(tp)
    for r_ in rows[1:]:
        print(r_['i'], r_['ev'], r_['a'], r_['b'], r_['gotA'], r_['gotB'])
    v, dv = validate(ctx, rows)
    for ch, m in v:
        ctx.report({'family': 'pair', 'clause': sorted(m[2])[0]}, str(m), d['replay'])
    ctx.cov.update({'states': 1, 'transitions': 1, 'traces_validated_against_impl': 1, 'samples': [rows[-1]['ev']]})
