"""C01 - inbound application messages reach the application in order, exactly once.
Family "seq" of Session.tla; monitors C01_* of Monitors.tla on traces of the real engine."""
from lib import common, sessfam

LEVEL = 'model_checking'
PID = 'C01'
FAMILY = 'seq'
PROPS = ['P_C01']
BASE = [{'role': 'acc', 'bs': 42, 'chunk': 0, 'maxIn': 6, 'maxOut': 3}, {'role': 'acc', 'bs': 42, 'chunk': 1, 'maxIn': 5, 'maxOut': 4}]
ALT = [{'role': 'init', 'bs': 44, 'chunk': 0}, {'role': 'init', 'bs': 40, 'chunk': 2}, {'role': 'acc', 'bs': 41, 'chunk': 1}, {'role': 'init', 'bs': 50, 'chunk': 0}, {'role': 'acc', 'bs': 44, 'chunk': 3}, {'role': 'init', 'bs': 42, 'chunk': 1}]


def configs(ctx):
    if ctx.tier == 'quick':
        return BASE + [ALT[(ctx.seed + i) % len(ALT)] for i in range(min(2, len(ALT)))]
    return BASE + ALT


def run(ctx):
    sessfam.standard_run(ctx, PID, FAMILY, PROPS, configs(ctx), quick_budget=15000, thorough_budget=250000,
                         quick_bounds={'maxIn': 5, 'maxOut': 3}, thorough_bounds={'maxIn': 6, 'maxOut': 4},
                         statement='FromApp order / at-expected / advance-by-one / monotone counter')


def replay(ctx, path):
    sessfam.standard_replay(ctx, PID, path)
