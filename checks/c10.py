"""C10 - built messages are well-formed FIX whatever API calls produced them.

M/G: TLC explores FieldMap.tla (API calls on header/body/trailer over a small tag/value alphabet and a
     repeating group) and dumps the state graph; scripts = edge cover + 1-switch tours (so that
     "remove then set", "group then plain set", "clear then set" are produced mechanically) +
     random walks with seed-chosen values.
R:   vh fieldmap executes each call on a real quickfix.Message, builds it, scans the bytes with the
     independent scanner, parses them again and copies the message.
V:   TLC advances FieldMap!Apply and judges every build with FieldMap!Fails (FieldMapTrace.tla).
"""
import json
import os
import random
from concurrent.futures import ThreadPoolExecutor

from lib import common, graph

LEVEL = 'model_checking'
MC = '''---- MODULE FieldMap_MC ----
EXTENDS FieldMap
MCValues == %s
MCGroups == {<<>>, << <<<<448, "p1">>, <<447, "D">>>> >>, << <<<<448, "p1">>, <<447, "D">>>>, <<<<448, "p2">>>> >>}
====
'''
CFG = 'SPECIFICATION Spec\nCONSTANTS\n Values <- MCValues\n GroupInsts <- MCGroups\nVIEW View\nINVARIANTS TypeOK BagSize\nCHECK_DEADLOCK FALSE\n'


def run(ctx):
    quick = ctx.tier == 'quick'
    rng = random.Random(ctx.seed)
    ctx.build()
    values = '{"a", "", "x=y"}' if quick else '{"a", "b", "", "x=y"}'
    r = ctx.tlc('FieldMap_MC.tla', 'fm.cfg', workers=16, timeout=1800, extra=['-dump', 'dot,actionlabels', 'g.dot'],
                files={'FieldMap_MC.tla': MC % values, 'fm.cfg': CFG})
    ctx.tlc_ok(r, 'FieldMap M')
    g = graph.Graph(os.path.join(r['dir'], 'g.dot'))
    if g.n != r['distinct']:
        raise common.Infra('dot dump has %d nodes, TLC reported %d' % (g.n, r['distinct']))
    paths = g.edge_cover(maxlen=40, rng=rng)
    ncover = len(paths)
    sw, cov, tot = g.switch_cover(maxlen=40, budget=40000 if quick else 600000, rng=rng)
    paths += sw
    scripts = [{'id': 'g%d' % i, 'steps': [g.edge_call(e)[1][0] for e in p]} for i, p in enumerate(paths)]
    # random walks with concrete values chosen by the seed (long values, '=' inside, high-bit bytes)
    vals = ['', 'a', 'x=y', '0', '-1', 'Z' * 300, 'café', '10=000', '8=FIX', ' sp ace ', '9=5']
    secs = {'h': [50, 49, 56], 'b': [11, 55, 58, 9999], 't': [93, 89]}
    for k in range(100 if quick else 2000):
        steps = []
        for _ in range(rng.randint(3, 25)):
            s = rng.choice('hbbt')
            c = rng.random()
            if c < 0.55:
                steps.append({'k': 'Set', 's': s, 'tag': rng.choice(secs[s]), 'v': rng.choice(vals)})
            elif c < 0.75:
                steps.append({'k': 'Remove', 's': s, 'tag': rng.choice(secs[s] + ([453] if s == 'b' else []))})
            elif c < 0.82:
                steps.append({'k': 'Clear', 's': s})
            else:
                n = rng.randint(0, 3)
                # (an entry may also carry a field that is not in the group's template: it is set, so it is written)
                es = [[[448, rng.choice(vals[1:])]] + ([[447, rng.choice(vals[1:])]] if rng.random() < 0.6 else [])
                      + ([[9998, rng.choice(vals[1:4])]] if rng.random() < 0.25 else []) for _ in range(n)]
                steps.append({'k': 'SetGroup', 's': 'b', 'tag': 453, 'es': es})
        scripts.append({'id': 'w%d' % k, 'steps': steps})
    sp = os.path.join(ctx.scratch, 'scripts.ndjson')
    common.ndjson_write(sp, scripts)
    tp = os.path.join(ctx.scratch, 'trace.ndjson')
    p = ctx.run_vh(['fieldmap', '-scripts', sp, '-out', tp], timeout=3000)
    if p.returncode != 0:
        raise common.Infra('vh fieldmap failed: ' + p.stderr[-1500:])
    rows = common.ndjson_read(tp)
    for r_ in rows:
        if 'panic' in r_:
            ctx.report({'family': 'fieldmap', 'kind': 'panic', 'op': r_['op'].get('k')}, 'panic in %s: %s' % (json.dumps(r_['op']), r_['panic']), {'script': script_of(rows, r_)})
    clean = [r_ for r_ in rows if 'panic' not in r_]
    chunks = split(clean, 8)
    mism = []
    with ThreadPoolExecutor(max_workers=8) as ex:
        for m in ex.map(lambda ch: validate(ctx, ch), chunks):
            mism += m
    for ch, m in mism:
        line = int(m[1])
        row = ch[line - 1]
        start = line - 1
        while start > 0 and ch[start]['op'].get('k') != 'TraceReset':
            start -= 1
        steps = [x['op'] for x in ch[start + 1:line]]
        prev = steps[-2]['k'] if len(steps) >= 2 else 'none'
        for c in sorted(m[2]):
            sig = {'family': 'fieldmap', 'clause': c, 'op': row['op']['k'], 'prev': prev,
                   'same_tag_as_prev': len(steps) >= 2 and steps[-2].get('tag') == row['op'].get('tag') and steps[-2].get('s') == row['op'].get('s')}
            ctx.report(sig, 'C10 clause %s after %s: bytes=%s %s' % (c, json.dumps(steps[-3:]), row['obs'].get('bytes', '')[:200], row['obs'].get('why', '')),
                       {'steps': steps})
    negative_control(ctx, clean)
    ctx.cov.update({
        'states': r['distinct'], 'transitions': r['generated'], 'graph_edges': g.m, 'edge_cover_scripts': ncover,
        'switch_pairs_covered': cov, 'switch_pairs_total': tot,
        'traces_validated_against_impl': len(scripts), 'evaluations': len(rows),
        'distinct_nontrivial': len(set(json.dumps([x['op'] for x in ch_rows(rows, i)][-2:], sort_keys=True) for i in range(0, len(rows), 7))),
        'rule': 'one case = one API call followed by build/scan/parse/copy; distinct = distinct (previous call, call) pairs (sampled count)',
        'samples': [{'op': rows[1]['op'], 'bytes': rows[1]['obs']['bytes']}, {'op': rows[-1]['op'], 'bytes': rows[-1]['obs']['bytes'][:200]}],
        'exhaustive': False,
    })
    ctx.assumptions += ['tags are used in their proper section; values are SOH-free', 'BeginString and MsgType are always set (Message.build needs them)']


def ch_rows(rows, i):
    return rows[max(0, i - 1):i + 1]


def script_of(rows, row):
    i = rows.index(row)
    j = i
    while j > 0 and rows[j]['op'].get('k') != 'TraceReset':
        j -= 1
    return [x['op'] for x in rows[j + 1:i + 1]]


def split(rows, n):
    """split at trace boundaries into about n chunks"""
    size = max(1, len(rows) // n)
    out, cur = [], []
    for r_ in rows:
        if r_['op'].get('k') == 'TraceReset' and len(cur) >= size:
            out.append(cur)
            cur = []
        cur.append(r_)
    if cur:
        out.append(cur)
    return out


def validate(ctx, rows):
    content = '\n'.join(json.dumps(r, separators=(',', ':')) for r in rows) + '\n'
    mod = '---- MODULE FieldMapTraceX ----\nEXTENDS FieldMapTrace\nMCValues == {"a"}\nMCGroups == {<<>>}\n====\n'
    cfg = 'SPECIFICATION TraceSpec\nCONSTANTS\n Values <- MCValues\n GroupInsts <- MCGroups\nPOSTCONDITION AllConsumed\nCHECK_DEADLOCK FALSE\n'
    r = ctx.tlc('FieldMapTraceX.tla', 'tr.cfg', workers=1, timeout=3000, files={'trace.ndjson': content, 'tr.cfg': cfg, 'FieldMapTraceX.tla': mod})
    if r['rc'] != 0 or 'Model checking completed. No error has been found.' not in r['out']:
        raise common.Infra('FieldMapTrace did not run to completion:\n' + r['out'][-2500:])
    return [(rows, m) for m in common.printed(r['out'], 'MISMATCH')]


def negative_control(ctx, rows):
    import copy
    head = copy.deepcopy(rows[:12])
    k = next(i for i, r_ in enumerate(head) if r_['op'].get('k') == 'Set' and i > 1)
    head[k]['obs']['fields'].insert(3, head[k]['obs']['fields'][3])
    m = validate(ctx, head)
    if not any(int(x[1][1]) == k + 1 and 'everyFieldOnce' in x[1][2] for x in m):
        raise common.Infra('negative control failed: a duplicated field in the scanned bytes was accepted')
    ctx.notes.append('negative control: duplicated field rejected by FieldMapTrace (everyFieldOnce)')


def replay(ctx, path):
    with open(path) as f:
        d = json.load(f)
    ctx.build()
    sp = os.path.join(ctx.scratch, 'scripts.ndjson')
    common.ndjson_write(sp, [{'id': 'replay', 'steps': d['replay'].get('steps') or d['replay'].get('script')}])
    tp = os.path.join(ctx.scratch, 'trace.ndjson')
    ctx.run_vh(['fieldmap', '-scripts', sp, '-out', tp])
    rows = common.ndjson_read(tp)
    for r_ in rows[1:]:
        print(json.dumps(r_['op']), '->', r_.get('obs', {}).get('bytes'), r_.get('obs', {}).get('why', ''), r_.get('panic', ''))
    for ch, m in validate(ctx, [r_ for r_ in rows if 'panic' not in r_]):
        for c in sorted(m[2]):
            ctx.report({'family': 'fieldmap', 'clause': c}, 'clause %s at step %d' % (c, int(m[1]) - 2), d['replay'])
    ctx.cov.update({'states': 1, 'transitions': 1, 'traces_validated_against_impl': 1, 'samples': [rows[-1].get('obs', {}).get('bytes')]})
