"""C12 - stream framing is independent of how the bytes arrive.

M: TLC checks on Framer.tla (streams = concatenations of pieces) that what can be framed from a
   prefix is a prefix of what is framed from the whole (the content-only semantics that makes
   chunk independence possible).
R: vh framer runs the real parser (default buffer and pre-seeded 16/32/64-byte buffers) over every
   stream under one-byte reads, fixed sizes, every single cut, random double cuts and ragged reads, each
   with the end of the stream reported after the last bytes and together with them.
V: TLC validates per stream that all chunkings gave ONE result and that it is Framer!Frames(stream)
   (FramerTrace.tla); for streams of well-formed messages separated by junk without "8=", that the
   frames are exactly the messages.
"""
import itertools
import json
import os
import random
from concurrent.futures import ThreadPoolExecutor

from lib import common

LEVEL = 'model_checking'
S = '\x01'


def msg(body, length=None, begin='FIX.4.2', csum='000'):
    b = body
    n = len(b) if length is None else length
    return '8=%s%s9=%s%s%s10=%s%s' % (begin, S, n, S, b, csum, S)


def pieces(filler=0):
    f = 'x' * filler
    return {
        'good1': msg('35=0' + S),
        'good7': msg('35=0' + S + '1=' + f + S) if filler else msg('35=0' + S + '1=' + S),
        'good40': msg('35=D' + S + '58=' + 'y' * 29 + f + S),
        'under': msg('35=0' + S + '58=abc' + S, length=3),
        'over': msg('35=0' + S, length=30),
        'nolen': '8=FIX.4.2' + S + '9=' + S + '35=0' + S + '10=000' + S,
        'neglen': msg('35=0' + S, length='-5'),
        'badlen': msg('35=0' + S, length='5x'),
        'zerolen': msg('35=0' + S, length='0'),
        'junk': 'zz' + S + '9=3' + S + '10=' + S + 'q',
        'junk8': 'a8=b' + S,
        'trunc': '8=FIX.4.2' + S + '9=5' + S + '35=',
        'inner10': msg('58=a' + S + '10=9' + S + 'x' + S),
        'eight': msg('58=8=9=1' + S),
    }


def tla_seq(s):
    return '<<' + ', '.join(str(ord(c)) for c in s) + '>>'


def run(ctx):
    quick = ctx.tier == 'quick'
    rng = random.Random(ctx.seed)
    ctx.build()
    P = pieces()
    names = sorted(P)
    # ---- M
    mc_pieces = ['good1', 'under', 'over', 'nolen', 'neglen', 'badlen', 'junk', 'junk8', 'trunc', 'inner10']
    mod = '---- MODULE Framer_MC ----\nEXTENDS Framer\nMCPieces == {%s}\n====\n' % ',\n  '.join(tla_seq(P[n]) for n in mc_pieces)
    cfg = 'SPECIFICATION Spec\nCONSTANTS\n Pieces <- MCPieces\n MaxPieces = %d\nINVARIANT PrefixMonotone\nCHECK_DEADLOCK FALSE\n' % (2 if quick else 3)
    r = ctx.tlc('Framer_MC.tla', 'fmc.cfg', workers=16, timeout=2400, files={'Framer_MC.tla': mod, 'fmc.cfg': cfg})
    ctx.tlc_ok(r, 'Framer M')
    # ---- cases: all sequences of <= 3 pieces (quick: all pairs + seeded triples)
    cases = []
    seqs = [(a,) for a in names] + list(itertools.product(names, repeat=2))
    triples = list(itertools.product(names, repeat=3))
    seqs += rng.sample(triples, 250) if quick else triples
    for sq in seqs:
        s = ''.join(P[n] for n in sq)
        cases.append({'id': '+'.join(sq), 'stream': [ord(c) for c in s]})
    # well-formed messages separated by junk without a BeginString marker
    goods = ['good1', 'good7', 'good40', 'inner10', 'eight']
    junks = ['', 'zz' + S, S + '9=3' + S + '10=' + S, '10=000' + S + 'q', '\n\r ', '9=5' + S + '35=0' + S]
    for k in range(60 if quick else 600):
        n = rng.randint(1, 4)
        ms = [P[rng.choice(goods)] for _ in range(n)]
        s = rng.choice(junks)
        for m in ms:
            s += m + rng.choice(junks)
        cases.append({'id': 'wf%d' % k, 'stream': [ord(c) for c in s], 'msgs': [[ord(c) for c in m] for m in ms]})
    # streams larger than the default 4096-byte buffer (messages and gaps larger than the buffer)
    big = pieces(filler=4100)
    bigP = pieces(filler=2500)
    for k in range(6 if quick else 40):
        n = rng.randint(2, 3)
        ms = [rng.choice([big, bigP, P])[rng.choice(['good7', 'good40', 'good1'])] for _ in range(n)]
        s = ''
        for m in ms:
            s += m + rng.choice(['', 'j' * rng.choice([1, 5000])])
        cases.append({'id': 'big%d' % k, 'stream': [ord(c) for c in s], 'msgs': [[ord(c) for c in m] for m in ms]})
    # a message larger than the buffer followed by a long tail of small ones: the grown buffer is run through again
    for k, fill in enumerate([4500, 6001] if quick else [4500, 6000, 6001, 10000, 20000]):
        tail = 150 if quick else 400
        ms = [P['good1']] * 3 + [pieces(filler=fill)['good40']] + [P[rng.choice(['good1', 'good7', 'good40'])] for _ in range(tail)]
        cases.append({'id': 'bigtail%d' % k, 'stream': [ord(c) for c in ''.join(ms)], 'msgs': [[ord(c) for c in m] for m in ms]})
    cp = os.path.join(ctx.scratch, 'cases.ndjson')
    common.ndjson_write(cp, cases)
    tp = os.path.join(ctx.scratch, 'trace.ndjson')
    p = ctx.run_vh(['framer', '-cases', cp, '-out', tp, '-seed', str(ctx.seed), '-pairs', '15' if quick else '60'], timeout=3000)
    if p.returncode != 0:
        raise common.Infra('vh framer failed: ' + p.stderr[-1500:])
    runs = json.loads(p.stdout.strip().splitlines()[-1])['runs']
    rows = common.ndjson_read(tp)
    small = [r_ for r_ in rows if len(r_['stream']) <= 1000]
    large = [r_ for r_ in rows if len(r_['stream']) > 1000]
    nchunks = 8
    size = (len(small) + nchunks - 1) // nchunks
    chunks = [small[i:i + size] for i in range(0, len(small), size)] + [[x] for x in large]
    mism = []
    with ThreadPoolExecutor(max_workers=8) as ex:
        for m in ex.map(lambda ch: validate(ctx, ch), chunks):
            mism += m
    for ch, m in mism:
        row = ch[int(m[1]) - 1]
        for bad in list(m[2])[:2]:
            kind = bad[0]
            sig = {'family': 'framer', 'kind': kind, 'pieces': row['id'] if len(row['id']) < 60 else row['id'][:60]}
            what = 'stream %s (%d bytes): %s; observed %s' % (row['id'], len(row['stream']), bad,
                   [{'frames': len(x['frames']), 'err': x['err'], 'witness': x['witness']} for x in row['results']][:4])
            ctx.report(sig, what, {'case': {'id': row['id'], 'stream': row['stream'], **({'msgs': row['msgs']} if 'msgs' in row else {})}})
    negative_control(ctx, small)
    ctx.cov.update({
        'states': r['distinct'], 'transitions': r['generated'],
        'traces_validated_against_impl': len(rows), 'evaluations': runs,
        'distinct_nontrivial': len(rows),
        'rule': 'one case = one stream; an evaluation = one (stream, chunk schedule, buffer size) run of the real framer; distinct streams counted',
        'samples': [{'id': rows[0]['id'], 'results': [{'frames': len(x['frames']), 'err': x['err']} for x in rows[0]['results']]},
                    {'id': rows[-1]['id'], 'bytes': len(rows[-1]['stream'])}],
        'exhaustive': False,
    })
    ctx.assumptions += ['BodyLength texts longer than 18 digits (integer overflow) are not used: unspecified',
                        'the reader returns data and then io.EOF; a reader error other than EOF is not modelled']


def validate(ctx, rows):
    content = '\n'.join(json.dumps(r, separators=(',', ':')) for r in rows) + '\n'
    mod = '---- MODULE FramerTraceX ----\nEXTENDS FramerTrace\nMCPieces == {<<1>>}\n====\n'
    cfg = 'SPECIFICATION TraceSpec\nCONSTANTS\n Pieces <- MCPieces\n MaxPieces = 1\nPOSTCONDITION AllConsumed\nCHECK_DEADLOCK FALSE\n'
    r = ctx.tlc('FramerTraceX.tla', 'tr.cfg', workers=1, timeout=3000, javaopts='-Xss512m',
                files={'trace.ndjson': content, 'tr.cfg': cfg, 'FramerTraceX.tla': mod})
    if r['rc'] != 0 or 'Model checking completed. No error has been found.' not in r['out']:
        raise common.Infra('FramerTrace did not run to completion:\n' + r['out'][-2500:])
    return [(rows, m) for m in common.printed(r['out'], 'MISMATCH')]


def negative_control(ctx, rows):
    import copy
    head = copy.deepcopy(rows[:10])
    k = next(i for i, r_ in enumerate(head) if r_['results'][0]['frames'])
    head[k]['results'][0]['frames'][0][-2] ^= 1
    m = validate(ctx, head)
    if not any(int(x[1][1]) == k + 1 for x in m):
        raise common.Infra('negative control failed: a corrupted frame byte was accepted')
    ctx.notes.append('negative control: one flipped frame byte rejected by FramerTrace at line %d' % (k + 1))


def replay(ctx, path):
    with open(path) as f:
        d = json.load(f)
    ctx.build()
    cp = os.path.join(ctx.scratch, 'cases.ndjson')
    common.ndjson_write(cp, [d['replay']['case']])
    tp = os.path.join(ctx.scratch, 'trace.ndjson')
    ctx.run_vh(['framer', '-cases', cp, '-out', tp, '-seed', str(d.get('seed', 1))])
    rows = common.ndjson_read(tp)
    for x in rows[0]['results']:
        print(len(x['frames']), x['err'], x['witness'])
    for ch, m in validate(ctx, rows):
        ctx.report({'family': 'framer', 'kind': list(m[2])[0][0]}, str(m[2]), d['replay'])
    ctx.cov.update({'states': 1, 'transitions': 1, 'traces_validated_against_impl': 1, 'samples': [rows[0]['id']]})
