"""C18 - session schedules classify instants by the configured windows.

M: TLC checks on Schedule.tla that the window semantics gives an equivalence on each window
   (symmetric, transitive, convex, separated by out-of-range instants) on a bounded grid.
R: vh schedule asks the real internal.TimeRange (through the verif export) for IsInRange /
   IsInSameRange of configurations x instants x pairs in five time zones, over weeks containing
   daylight-saving shifts.
V: TLC validates every recorded answer against Schedule!InRange / SameRange (ScheduleTrace.tla).
"""
import json
import os
import random
from concurrent.futures import ThreadPoolExecutor

from lib import common

LEVEL = 'model_checking'
TIMES = [0, 12600, 32400, 61200, 84600]         # 00:00 03:30 09:00 17:00 23:30 (no edge inside a DST shift: those
                                                # civil times do not exist or are ambiguous, the statement is silent there)
DAYSETS = [[], [1, 2, 3, 4, 5], [6], [0], [6, 0], [1], [0, 1, 2, 3, 4, 5, 6]]
ZONES = [('UTC', '2024-03-03'), ('fixed-1', '2024-03-03'), ('America/New_York', '2024-03-03'),
         ('America/New_York', '2024-10-20'), ('Europe/London', '2024-03-24'), ('Europe/London', '2024-10-13'),
         ('Australia/Lord_Howe', '2024-03-24'), ('Australia/Lord_Howe', '2024-09-22')]

MC_MOD = '''---- MODULE Schedule_MCx ----
EXTENDS Schedule
MCTimes == %s
MCDaySets == {{}, {1,2,3,4,5}, {6}, {0}, {6,0}, {1}}
MCGrid == %s
====
'''
MC_CFG = '''SPECIFICATION Spec
CONSTANTS
  Times <- MCTimes
  DaySets <- MCDaySets
  Grid <- MCGrid
INVARIANTS Symmetric ImpliesInRange Reflexive Transitive Separated Convex
CHECK_DEADLOCK FALSE
'''


def configs(quick, rng):
    out = []
    for s in TIMES:
        for e in TIMES:
            for days in DAYSETS:
                out.append({'kind': 'daily', 's': s, 'e': e, 'days': days, 'sd': 0, 'ed': 0})
    tp = [(s, e) for s in TIMES for e in TIMES]
    for sd in range(7):
        for ed in range(7):
            for (s, e) in (rng.sample(tp, 3) if quick else tp):
                out.append({'kind': 'weekly', 's': s, 'e': e, 'days': [], 'sd': sd, 'ed': ed})
    if quick:
        rng.shuffle(out)
        out = out[:len(out) // 3]
    return out


def instants(cfg):
    """4 weeks: every boundary +-30 min, midnight +-30 min, noon (never within a second of an edge)"""
    pts = set()
    for day in range(-1, 29):
        for b in (cfg['s'], cfg['e'], 0):
            pts.add(day * 86400 + b - 1800)
            pts.add(day * 86400 + b + 1800)
        pts.add(day * 86400 + 43200)
    return sorted(p for p in pts if 0 <= p < 28 * 86400)


def run(ctx):
    quick = ctx.tier == 'quick'
    rng = random.Random(ctx.seed)
    ctx.build()
    # ---- M
    grid = '{-3600, 1800, 7000, 9000, 43200, 60000, 63000, 84000, 86000, 88200, 129600, 174600, 520000, 604000, 606600, 691200}' if not quick \
        else '{-3600, 1800, 9000, 43200, 63000, 86000, 88200, 174600, 520000, 606600}'
    times = '{0, 7200, 61200, 84600}' if not quick else '{0, 7200, 84600}'
    r = ctx.tlc('Schedule_MCx.tla', 'mcx.cfg', workers=16, timeout=2400,
                files={'Schedule_MCx.tla': MC_MOD % (times, grid), 'mcx.cfg': MC_CFG})
    ctx.tlc_ok(r, 'Schedule M')
    # ---- cases
    cfgs = configs(quick, rng)
    cases = []
    for i, c in enumerate(cfgs):
        zone, base = ZONES[(i + ctx.seed) % len(ZONES)]
        pts = instants(c)
        use = pts if not quick else [p for j, p in enumerate(pts) if (j + i) % 3 == 0]
        for t1 in use:
            near = [p for p in pts if abs(p - t1) <= 8 * 86400 and p != t1]
            t2s = rng.sample(near, min(len(near), 12 if quick else 40)) + [t1]
            cases.append({'cfg': c, 'zone': zone, 'base': base, 't1': t1, 't2s': t2s})
    cp = os.path.join(ctx.scratch, 'cases.ndjson')
    common.ndjson_write(cp, cases)
    tp = os.path.join(ctx.scratch, 'trace.ndjson')
    p = ctx.run_vh(['schedule', '-cases', cp, '-out', tp], timeout=1800)
    if p.returncode != 0:
        raise common.Infra('vh schedule failed: ' + p.stderr[-1500:])
    rows = common.ndjson_read(tp)
    if len(rows) < len(cases) * 0.9:
        raise common.Infra('driver dropped too many cases: %d of %d' % (len(rows), len(cases)))
    # ---- V, split over TLC processes
    nchunks = 8 if quick else 16
    size = (len(rows) + nchunks - 1) // nchunks
    chunks = [rows[i:i + size] for i in range(0, len(rows), size)]

    def one(ch):
        return validate(ctx, ch)
    mism = []
    with ThreadPoolExecutor(max_workers=8) as ex:
        for m in ex.map(one, chunks):
            mism += m
    npairs = sum(len(r_['t2s']) for r_ in rows)
    for ch, m in mism:
        row = ch[int(m[1]) - 1]
        for bad in list(m[2])[:3]:
            report(ctx, row, bad)
    negative_control(ctx, rows)
    ctx.cov.update({
        'states': r['distinct'], 'transitions': r['generated'],
        'traces_validated_against_impl': len(rows),
        'evaluations': len(rows) + 2 * npairs,
        'distinct_nontrivial': len(set((json.dumps(r_['cfg'], sort_keys=True), r_['t1']) for r_ in rows)),
        'rule': 'one case = one (configuration, instant) with IsInRange, plus IsInSameRange against sampled instants within 8 days; distinct (configuration, instant) pairs counted',
        'configurations': len(cfgs), 'zones': sorted(set(z for z, _ in ZONES)),
        'samples': rows[:2], 'exhaustive': False,
    })
    ctx.assumptions += ['instants within one second of a window edge are not judged (as the property states)',
                        'civil times that do not exist or are ambiguous in the zone are skipped (unspecified)']


def validate(ctx, rows):
    content = '\n'.join(json.dumps(r, separators=(',', ':')) for r in rows) + '\n'
    cfg = 'SPECIFICATION TraceSpec\nCONSTANTS\n Times <- MCTimes\n DaySets <- MCDaySets\n Grid <- MCGrid\nPOSTCONDITION AllConsumed\nCHECK_DEADLOCK FALSE\n'
    mod = '---- MODULE ScheduleTraceX ----\nEXTENDS ScheduleTrace\nMCTimes == {0}\nMCDaySets == {{}}\nMCGrid == {0}\n====\n'
    r = ctx.tlc('ScheduleTraceX.tla', 'tr.cfg', workers=1, timeout=3000,
                files={'trace.ndjson': content, 'tr.cfg': cfg, 'ScheduleTraceX.tla': mod})
    if r['rc'] != 0 or 'Model checking completed. No error has been found.' not in r['out']:
        raise common.Infra('ScheduleTrace did not run to completion:\n' + r['out'][-2500:])
    return [(rows, m) for m in common.printed(r['out'], 'MISMATCH')]


WD = ['Sun', 'Mon', 'Tue', 'Wed', 'Thu', 'Fri', 'Sat']


def civil_str(t):
    return '%s+%dw %02d:%02d:%02d' % (WD[(t // 86400) % 7], t // (7 * 86400), t % 86400 // 3600, t % 3600 // 60, t % 60)


def report(ctx, row, bad):
    c = row['cfg']
    kind = bad[0]
    overnight = c['s'] >= c['e']
    if kind == 'in':
        t = bad[1]
        sig = {'family': 'schedule', 'fn': 'IsInRange', 'kind': c['kind'], 'overnight': overnight,
               'days': c['days'], 'weekday': (t // 86400) % 7, 'after_midnight_part': overnight and (t % 86400) <= c['e']}
        what = 'IsInRange disagrees with the configured windows: cfg=%s at %s (zone %s)' % (json.dumps(c), civil_str(t), row['zone'])
    else:
        sig = {'family': 'schedule', 'fn': 'IsInSameRange', 'kind': c['kind'], 'overnight': overnight, 'days': c['days']}
        what = 'IsInSameRange disagrees with the configured windows: cfg=%s at %s / %s (zone %s)' % (
            json.dumps(c), civil_str(bad[1]), civil_str(bad[2]), row['zone'])
    ctx.report(sig, what, {'case': {'cfg': c, 'zone': row['zone'], 't1': row['t1'], 't2s': row['t2s']}, 'bad': bad})


def negative_control(ctx, rows):
    import copy
    head = copy.deepcopy(rows[:20])
    head[5]['in1'] = not head[5]['in1']
    m = validate(ctx, head)
    if not any(int(x[1][1]) == 6 for x in m):
        raise common.Infra('negative control failed: flipped IsInRange answer accepted')
    ctx.notes.append('negative control: flipped IsInRange answer at line 6 rejected by ScheduleTrace')


def replay(ctx, path):
    with open(path) as f:
        d = json.load(f)
    ctx.build()
    case = dict(d['replay']['case'])
    zone = case['zone']
    base = [b for z, b in ZONES if z == zone][0]
    case['base'] = base
    cp = os.path.join(ctx.scratch, 'cases.ndjson')
    common.ndjson_write(cp, [case])
    tp = os.path.join(ctx.scratch, 'trace.ndjson')
    p = ctx.run_vh(['schedule', '-cases', cp, '-out', tp])
    rows = common.ndjson_read(tp)
    print(json.dumps(rows))
    for ch, m in validate(ctx, rows):
        for bad in list(m[2])[:3]:
            report(ctx, ch[int(m[1]) - 1], bad)
    ctx.cov.update({'states': 1, 'transitions': 1, 'traces_validated_against_impl': 1, 'samples': rows[:1]})
