"""C19 - loaded dictionaries say what the specification file says.

M: TLC checks laws of Dictionary.tla's operators on generated documents.
R: vh dict loads every document with the real datadictionary package (the nine shipped files by path,
   generated documents from rendered XML) and reports, per message / header / trailer, Fields keys,
   Tags, RequiredTags and every group's member order, per field its type and enumeration, and
   whether loading was refused.
V: TLC evaluates Dictionary!Expect / Refused on the documents exported by an INDEPENDENT XML walk
   (lib/xmlwalk.py) and compares (DictTrace.tla).
"""
import json
import os
import random
from concurrent.futures import ThreadPoolExecutor

from lib import common, xmlwalk

LEVEL = 'model_checking'
SHIPPED = ['FIX40', 'FIX41', 'FIX42', 'FIX43', 'FIX44', 'FIX50', 'FIX50SP1', 'FIX50SP2', 'FIXT11']


def gen_doc(rng, variant=None):
    """a generated specification: nested components and groups, optional and required members"""
    nf = 10
    fields = [{'name': 'F%d' % i, 'num': 5000 + i, 'type': rng.choice(['STRING', 'INT', 'CHAR', 'PRICE', 'BOOLEAN']),
               'enums': (rng.sample(['A', 'B', 'C', '1', '2'], rng.randint(1, 3)) if rng.random() < 0.3 else [])} for i in range(1, nf + 1)]
    fields += [{'name': 'G%d' % i, 'num': 6000 + i, 'type': 'NUMINGROUP', 'enums': []} for i in range(1, 4)]
    fields += [{'name': 'BeginString', 'num': 8, 'type': 'STRING', 'enums': []}, {'name': 'BodyLength', 'num': 9, 'type': 'LENGTH', 'enums': []},
               {'name': 'MsgType', 'num': 35, 'type': 'STRING', 'enums': []}, {'name': 'CheckSum', 'num': 10, 'type': 'STRING', 'enums': []}]
    used_groups = []

    def mk_parts(depth, allow_comp, comps_below):
        parts = []
        names = set()
        for _ in range(rng.randint(1, 3)):
            k = rng.choice(['field', 'field', 'component', 'group']) if depth > 0 else 'field'
            req = rng.random() < 0.5
            if k == 'component' and allow_comp and comps_below:
                parts.append({'k': 'component', 'name': rng.choice(comps_below), 'req': req, 'parts': []})
            elif k == 'group' and len(used_groups) < 3:
                g = 'G%d' % (len(used_groups) + 1)
                used_groups.append(g)
                inner = mk_parts(depth - 1, allow_comp, comps_below)
                parts.append({'k': 'group', 'name': g, 'req': req, 'parts': inner})
            else:
                n = 'F%d' % rng.randint(1, nf)
                if n not in names:
                    names.add(n)
                    parts.append({'k': 'field', 'name': n, 'req': req, 'parts': []})
        return parts or [{'k': 'field', 'name': 'F1', 'req': True, 'parts': []}]
    comps = []
    comps.append({'name': 'C3', 'parts': mk_parts(1, False, [])})
    comps.append({'name': 'C2', 'parts': mk_parts(2, True, ['C3'])})
    comps.append({'name': 'C1', 'parts': mk_parts(2, True, ['C2', 'C3'])})
    msgs = [{'name': 'M%d' % i, 'msgtype': 'U%d' % i, 'parts': mk_parts(3, True, ['C1', 'C2', 'C3'])} for i in range(1, 3)]
    doc = {'fields': fields, 'components': comps, 'messages': msgs,
           'header': [{'k': 'field', 'name': n, 'req': True, 'parts': []} for n in ('BeginString', 'BodyLength', 'MsgType')],
           'trailer': [{'k': 'field', 'name': 'CheckSum', 'req': True, 'parts': []}]}
    if variant == 'dangling_field':
        doc['messages'][0]['parts'].append({'k': 'field', 'name': 'Nowhere', 'req': False, 'parts': []})
    elif variant == 'dangling_component':
        doc['messages'][1]['parts'].append({'k': 'component', 'name': 'Ghost', 'req': True, 'parts': []})
    elif variant == 'dangling_in_component':
        doc['components'][0]['parts'].append({'k': 'field', 'name': 'Nowhere', 'req': True, 'parts': []})
    elif variant == 'dangling_group':
        doc['messages'][0]['parts'].append({'k': 'group', 'name': 'NoSuchGroup', 'req': False, 'parts': [{'k': 'field', 'name': 'F1', 'req': True, 'parts': []}]})
    elif variant == 'dangling_unused_component':
        doc['components'].append({'name': 'Unused', 'parts': [{'k': 'field', 'name': 'Nowhere', 'req': False, 'parts': []}]})
    elif variant == 'optional_inner_required_field':
        # the shape of DESIGN 11-M: required Outer optionally includes Inner, Inner requires a field
        doc['components'] = [{'name': 'Inner', 'parts': [{'k': 'field', 'name': 'F2', 'req': True, 'parts': []}]},
                             {'name': 'Outer', 'parts': [{'k': 'field', 'name': 'F1', 'req': True, 'parts': []},
                                                          {'k': 'component', 'name': 'Inner', 'req': False, 'parts': []}]}]
        doc['messages'] = [{'name': 'M1', 'msgtype': 'U1', 'parts': [{'k': 'component', 'name': 'Outer', 'req': True, 'parts': []},
                                                                       {'k': 'field', 'name': 'F3', 'req': False, 'parts': []}]}]
    elif isinstance(variant, tuple) and variant[0] == 'shared_prefix':
        # two components that start with the same sub-component and go on differently; a group holding one of them
        k = variant[1]
        F_ = lambda n, req=False: {'k': 'field', 'name': n, 'req': req, 'parts': []}
        C_ = lambda n, req=True: {'k': 'component', 'name': n, 'req': req, 'parts': []}
        doc['components'] = [{'name': 'Inner', 'parts': [F_('F%d' % i, i % 2 == 1) for i in range(1, k + 1)]},
                             {'name': 'OuterX', 'parts': [C_('Inner'), F_('F10', True)]},
                             {'name': 'OuterY', 'parts': [C_('Inner'), F_('F9' if k < 9 else 'F10')]}]
        doc['messages'] = [{'name': 'M1', 'msgtype': 'U1', 'parts': [C_('OuterX')]},
                           {'name': 'M2', 'msgtype': 'U2', 'parts': [C_('OuterY', False)]},
                           {'name': 'M3', 'msgtype': 'U3', 'parts': [{'k': 'group', 'name': 'G1', 'req': True, 'parts': [C_('OuterX')]}]}]
    return doc


def run(ctx):
    quick = ctx.tier == 'quick'
    rng = random.Random(ctx.seed)
    ctx.build()
    docs = []
    cases = []
    shipped = SHIPPED if not quick else ['FIXT11', 'FIX42'] + [SHIPPED[(ctx.seed + k) % 7] for k in (0, 3)]
    shipped = list(dict.fromkeys(shipped))
    for name in shipped:
        path = os.path.join(common.REPO, 'spec', name + '.xml')
        doc = xmlwalk.load(path)
        docs.append(doc)
        cases.append({'doc': len(docs), 'path': path, 'label': name, 'msgtypes': [m['msgtype'] for m in doc['messages']],
                      'fieldnums': [f['num'] for f in doc['fields']]})
    variants = [None] * (40 if quick else 400) + ['dangling_field', 'dangling_component', 'dangling_in_component', 'dangling_group',
                                                   'dangling_unused_component', 'optional_inner_required_field'] * (2 if quick else 10)
    variants += [('shared_prefix', k) for k in range(1, 10)]
    gen_docs = []
    for v in variants:
        doc = gen_doc(rng, v)
        docs.append(doc)
        gen_docs.append(len(docs))
        cases.append({'doc': len(docs), 'xml': xmlwalk.render(doc), 'label': 'gen:%s' % ('%s_%d' % v if isinstance(v, tuple) else v), 'msgtypes': [m['msgtype'] for m in doc['messages']],
                      'fieldnums': [f['num'] for f in doc['fields']]})
    cp = os.path.join(ctx.scratch, 'cases.ndjson')
    common.ndjson_write(cp, cases)
    tp = os.path.join(ctx.scratch, 'trace.ndjson')
    p = ctx.run_vh(['dict', '-cases', cp, '-out', tp], timeout=3000)
    if p.returncode != 0:
        raise common.Infra('vh dict failed: ' + p.stderr[-1500:])
    rows = common.ndjson_read(tp)
    for r_ in rows:
        if 'panic' in r_:
            ctx.report({'family': 'dict', 'clause': 'panic'}, 'loading panics/hangs: %s (%s)' % (r_['panic'], cases[r_['doc'] - 1]['label']), {'doc': cases[r_['doc'] - 1]['label']})
    # M: laws on the generated documents
    docs_json = json.dumps(docs)
    gen_only = json.dumps([docs[i - 1] for i in gen_docs[:60]])
    mod = '---- MODULE Dictionary_MC ----\nEXTENDS Dictionary, Json\nMCDocs == JsonDeserialize("gen.json")\n====\n'
    cfg = 'SPECIFICATION Spec\nCONSTANTS\n Docs <- MCDocs\nINVARIANT Laws\nCHECK_DEADLOCK FALSE\n'
    r = ctx.tlc('Dictionary_MC.tla', 'd.cfg', workers=4, timeout=1800, javaopts='-Xss512m', files={'Dictionary_MC.tla': mod, 'd.cfg': cfg, 'gen.json': gen_only})
    ctx.tlc_ok(r, 'Dictionary M')
    # V: one TLC process per group of documents
    by_doc = {}
    for r_ in rows:
        by_doc.setdefault(r_['doc'], []).append(r_)
    groups = [[d] for d in range(1, len(shipped) + 1)]
    rest = list(range(len(shipped) + 1, len(docs) + 1))
    step = max(1, len(rest) // 6)
    groups += [rest[i:i + step] for i in range(0, len(rest), step)]
    mism = []
    with ThreadPoolExecutor(max_workers=8) as ex:
        for m in ex.map(lambda g: validate(ctx, [x for d in g for x in by_doc.get(d, [])], docs_json), groups):
            mism += m
    for ch, m in mism:
        row = ch[int(m[1]) - 1]
        label = cases[row['doc'] - 1]['label']
        for c in sorted(m[2]):
            sig = {'family': 'dict', 'clause': c, 'shipped': not label.startswith('gen:'), 'variant': label}
            ctx.report(sig, 'C19 clause %s in %s %s: observed %s' % (c, label, row.get('name', row.get('idx')),
                       json.dumps({k: row.get(k) for k in ('refused', 'err', 'req', 'fields', 'groups', 'type', 'enums') if k in row})[:600]),
                       {'label': label, 'doc': docs[row['doc'] - 1] if label.startswith('gen:') else label, 'row': row})
    negative_control(ctx, [x for x in by_doc[1]], docs_json)
    ctx.cov.update({
        'states': max(r['distinct'], 1), 'transitions': max(r['generated'], 1), 'traces_validated_against_impl': len(docs),
        'evaluations': len(rows), 'distinct_nontrivial': len(rows),
        'rule': 'one case = one message / header / trailer / field of one specification document compared with the loaded dictionary; documents: %d shipped + %d generated' % (len(shipped), len(gen_docs)),
        'shipped': shipped, 'samples': [{'doc': cases[0]['label'], 'row': {k: rows[1][k] for k in ('name', 'req')}}, {'doc': cases[-1]['label']}],
        'exhaustive': False,
    })
    ctx.assumptions += ['the independent XML walk (lib/xmlwalk.py, xml.etree) is the ground truth for what the specification file says']


def validate(ctx, rows, docs_json):
    if not rows:
        return []
    content = '\n'.join(json.dumps(r, separators=(',', ':')) for r in rows) + '\n'
    mod = '---- MODULE DictTraceX ----\nEXTENDS DictTrace\nMCDocs == <<>>\n====\n'
    cfg = 'SPECIFICATION TraceSpec\nCONSTANTS\n Docs <- MCDocs\nPOSTCONDITION AllConsumed\nCHECK_DEADLOCK FALSE\n'
    r = ctx.tlc('DictTraceX.tla', 'tr.cfg', workers=1, timeout=3000, javaopts='-Xss512m',
                files={'trace.ndjson': content, 'tr.cfg': cfg, 'DictTraceX.tla': mod, 'docs.json': docs_json})
    if r['rc'] != 0 or 'Model checking completed. No error has been found.' not in r['out']:
        raise common.Infra('DictTrace did not run to completion:\n' + r['out'][-2500:])
    return [(rows, m) for m in common.printed(r['out'], 'MISMATCH')]


def negative_control(ctx, rows, docs_json):
    import copy
    head = copy.deepcopy([r_ for r_ in rows if r_['k'] == 'msg'][:4])
    head[1]['req'] = head[1]['req'][1:] if head[1]['req'] else [9999]
    m = validate(ctx, head, docs_json)
    if not any(int(x[1][1]) == 2 and 'required' in x[1][2] for x in m):
        raise common.Infra('negative control failed: a wrong RequiredTags set was accepted')
    ctx.notes.append('negative control: altered RequiredTags rejected by DictTrace')


def replay(ctx, path):
    with open(path) as f:
        d = json.load(f)
    print(json.dumps(d['replay'])[:3000])
    raise common.Infra('C19 replays carry the generated document (or the shipped file name) and the observed row')
