// Package vlive runs the real Acceptor and Initiator of the library against each other over loopback
// TCP, through a proxy that cuts the connection, and records what C05 talks about: which application
// messages each side accepted for sending and which the other side's application received, in order.
// Unlike vpair (two sessions stepped by hand, executing behaviours of Pair.tla) this drives the real run
// loops, socket handling, reconnection and store re-creation; schedules are timed, not forced.
package vlive

import (
	"flag"
	"fmt"
	"io"
	"math/rand"
	"net"
	"os"
	"path/filepath"
	"strconv"
	"sync"
	"time"

	"github.com/quickfixgo/quickfix"
	"github.com/quickfixgo/quickfix/config"
	"github.com/quickfixgo/quickfix/log/screen"
	filestore "github.com/quickfixgo/quickfix/store/file"

	"verifharness/tr"
)

// ---------------------------------------------------------------- proxy
type proxy struct {
	ln     net.Listener
	target string
	mu     sync.Mutex
	conns  []net.Conn
	down   bool
	closed bool
}

func newProxy(target string) (*proxy, error) {
	ln, err := net.Listen("tcp", "127.0.0.1:0")
	if err != nil {
		return nil, err
	}
	p := &proxy{ln: ln, target: target}
	go p.loop()
	return p, nil
}

func (p *proxy) port() int { return p.ln.Addr().(*net.TCPAddr).Port }

func (p *proxy) loop() {
	for {
		c, err := p.ln.Accept()
		if err != nil {
			return
		}
		p.mu.Lock()
		down := p.down
		p.mu.Unlock()
		if down {
			c.Close()
			continue
		}
		u, err := net.Dial("tcp", p.target)
		if err != nil {
			c.Close()
			continue
		}
		p.mu.Lock()
		p.conns = append(p.conns, c, u)
		p.mu.Unlock()
		go func() { io.Copy(u, c); u.Close(); c.Close() }()
		go func() { io.Copy(c, u); u.Close(); c.Close() }()
	}
}

// cut closes every open connection; with hold the proxy also refuses new ones until up()
func (p *proxy) cut(hold bool) {
	p.mu.Lock()
	for _, c := range p.conns {
		c.Close()
	}
	p.conns = nil
	p.down = hold
	p.mu.Unlock()
}
func (p *proxy) up() { p.mu.Lock(); p.down = false; p.mu.Unlock() }
func (p *proxy) close() {
	p.cut(true)
	p.ln.Close()
}

// ---------------------------------------------------------------- application
type app struct {
	mu     sync.Mutex
	got    []string
	logons int
	on     bool
}

func (a *app) OnCreate(quickfix.SessionID)                       {}
func (a *app) OnLogon(quickfix.SessionID)                        { a.mu.Lock(); a.logons++; a.on = true; a.mu.Unlock() }
func (a *app) OnLogout(quickfix.SessionID)                       { a.mu.Lock(); a.on = false; a.mu.Unlock() }
func (a *app) ToAdmin(*quickfix.Message, quickfix.SessionID)     {}
func (a *app) ToApp(*quickfix.Message, quickfix.SessionID) error { return nil }
func (a *app) FromAdmin(*quickfix.Message, quickfix.SessionID) quickfix.MessageRejectError {
	return nil
}
func (a *app) FromApp(m *quickfix.Message, _ quickfix.SessionID) quickfix.MessageRejectError {
	id, _ := m.Body.GetString(quickfix.Tag(11))
	a.mu.Lock()
	a.got = append(a.got, id)
	a.mu.Unlock()
	return nil
}
func (a *app) snapshot() ([]string, bool) {
	a.mu.Lock()
	defer a.mu.Unlock()
	return append([]string(nil), a.got...), a.on
}

func freePort() int {
	l, err := net.Listen("tcp", "127.0.0.1:0")
	if err != nil {
		return 0
	}
	defer l.Close()
	return l.Addr().(*net.TCPAddr).Port
}

func logFactory() quickfix.LogFactory {
	if os.Getenv("VERIF_DEBUG") != "" {
		return screen.NewLogFactory()
	}
	return quickfix.NewNullLogFactory()
}

func settingsFor(initiator bool, dir string, port int) *quickfix.Settings {
	st := quickfix.NewSettings()
	g := st.GlobalSettings()
	g.Set(config.FileStorePath, dir)
	g.Set(config.HeartBtInt, "1")
	g.Set(config.ReconnectInterval, "1")
	g.Set(config.LogonTimeout, "2")
	g.Set(config.LogoutTimeout, "1")
	if os.Getenv("VERIF_789") != "" {
		g.Set(config.EnableNextExpectedMsgSeqNum, "Y")
	}
	ss := quickfix.NewSessionSettings()
	ss.Set(config.BeginString, "FIX.4.2")
	if initiator {
		ss.Set(config.SenderCompID, "INI")
		ss.Set(config.TargetCompID, "ACC")
		ss.Set(config.SocketConnectHost, "127.0.0.1")
		ss.Set(config.SocketConnectPort, strconv.Itoa(port))
	} else {
		ss.Set(config.SenderCompID, "ACC")
		ss.Set(config.TargetCompID, "INI")
		g.Set(config.SocketAcceptPort, strconv.Itoa(port))
	}
	st.AddSession(ss)
	return st
}

var iniID = quickfix.SessionID{BeginString: "FIX.4.2", SenderCompID: "INI", TargetCompID: "ACC"}
var accID = quickfix.SessionID{BeginString: "FIX.4.2", SenderCompID: "ACC", TargetCompID: "INI"}

func order(id string) *quickfix.Message {
	m := quickfix.NewMessage()
	m.Header.SetString(quickfix.Tag(35), "D")
	m.Body.SetString(quickfix.Tag(11), id)
	m.Body.SetString(quickfix.Tag(55), "IBM")
	return m
}

// runOnce executes one timed schedule; kind "file" allows restarts of the initiator on its store
func runOnce(runID int, seed int64, restarts bool) (tr.M, error) {
	rng := rand.New(rand.NewSource(seed))
	base, _ := os.MkdirTemp("", "vlive-")
	defer os.RemoveAll(base)
	accPort := freePort()
	accApp, iniApp := &app{}, &app{}
	acc, err := quickfix.NewAcceptor(accApp, filestore.NewStoreFactory(settingsFor(false, filepath.Join(base, "acc"), accPort)),
		settingsFor(false, filepath.Join(base, "acc"), accPort), logFactory())
	if err != nil {
		return nil, err
	}
	if err := acc.Start(); err != nil {
		return nil, fmt.Errorf("acceptor start: %w", err)
	}
	defer acc.Stop()
	px, err := newProxy("127.0.0.1:" + strconv.Itoa(accPort))
	if err != nil {
		return nil, err
	}
	defer px.close()
	newIni := func() (*quickfix.Initiator, error) {
		s := settingsFor(true, filepath.Join(base, "ini"), px.port())
		ini, err := quickfix.NewInitiator(iniApp, filestore.NewStoreFactory(s), s, logFactory())
		if err != nil {
			return nil, err
		}
		return ini, ini.Start()
	}
	ini, err := newIni()
	if err != nil {
		return nil, fmt.Errorf("initiator start: %w", err)
	}
	defer func() { ini.Stop() }()
	waitOn := func(d time.Duration) bool {
		t := time.Now().Add(d)
		for time.Now().Before(t) {
			_, a := accApp.snapshot()
			_, i := iniApp.snapshot()
			if a && i {
				return true
			}
			time.Sleep(5 * time.Millisecond)
		}
		return false
	}
	if !waitOn(8 * time.Second) {
		return nil, fmt.Errorf("%w: the two engines did not log on within 8 s", errVoid)
	}
	var sentI, sentA []interface{}
	events := []interface{}{}
	nI, nA := 0, 0
	steps := 10 + rng.Intn(8)
	for s := 0; s < steps; s++ {
		switch k := rng.Intn(10); {
		case k < 4:
			nI++
			id := fmt.Sprintf("i%d", nI)
			if quickfix.SendToTarget(order(id), iniID) == nil {
				sentI = append(sentI, id)
				events = append(events, "sendI")
			}
		case k < 8:
			nA++
			id := fmt.Sprintf("a%d", nA)
			if quickfix.SendToTarget(order(id), accID) == nil {
				sentA = append(sentA, id)
				events = append(events, "sendA")
			}
		case k == 8:
			hold := rng.Intn(2) == 0
			px.cut(hold)
			events = append(events, "cut")
			if hold {
				time.Sleep(time.Duration(rng.Intn(300)) * time.Millisecond)
				// submissions while the link is down: accepted, numbered and stored; delivered after the reconnect
				for j := rng.Intn(3); j > 0; j-- {
					if rng.Intn(2) == 0 {
						nI++
						id := fmt.Sprintf("i%d", nI)
						if quickfix.SendToTarget(order(id), iniID) == nil {
							sentI = append(sentI, id)
							events = append(events, "sendI(down)")
						}
					} else {
						nA++
						id := fmt.Sprintf("a%d", nA)
						if quickfix.SendToTarget(order(id), accID) == nil {
							sentA = append(sentA, id)
							events = append(events, "sendA(down)")
						}
					}
				}
				px.up()
			}
		default:
			if restarts {
				// the initiator is discarded and recreated on its persistent store
				ini.Stop()
				events = append(events, "restartI")
				ini, err = newIni()
				if err != nil {
					return nil, fmt.Errorf("initiator restart: %w", err)
				}
			}
		}
		time.Sleep(time.Duration(rng.Intn(40)) * time.Millisecond)
	}
	// the link stays up: wait until both sides have everything, or for a generous number of heartbeat intervals
	px.up()
	deadline := time.Now().Add(25 * time.Second)
	done := func() bool {
		ga, _ := accApp.snapshot()
		gi, _ := iniApp.snapshot()
		return len(ga) >= len(sentI) && len(gi) >= len(sentA)
	}
	for !done() && time.Now().Before(deadline) {
		time.Sleep(20 * time.Millisecond)
	}
	if !done() {
		// not there after 25 s: give a loaded machine more time before calling it a loss (up to 90 s in all)
		late := time.Now().Add(65 * time.Second)
		for !done() && time.Now().Before(late) {
			time.Sleep(50 * time.Millisecond)
		}
	}
	converged := done()
	if converged {
		time.Sleep(1500 * time.Millisecond) // anything delivered twice shows up now
	}
	ga, onA := accApp.snapshot()
	gi, onI := iniApp.snapshot()
	toL := func(s []string) []interface{} {
		o := make([]interface{}, len(s))
		for i, x := range s {
			o[i] = x
		}
		return o
	}
	if sentI == nil {
		sentI = []interface{}{}
	}
	if sentA == nil {
		sentA = []interface{}{}
	}
	return tr.M{"run": runID, "seed": int(seed), "restarts": restarts, "events": events, "sentI": sentI, "sentA": sentA,
		"gotA": toL(ga), "gotI": toL(gi), "converged": converged, "onA": onA, "onI": onI}, nil
}

var errVoid = fmt.Errorf("void run")

// Main: vh live -out trace.ndjson -runs 6 -seed 1 [-restarts]
func Main(args []string) int {
	fs := flag.NewFlagSet("live", flag.ExitOnError)
	out := fs.String("out", "", "trace ndjson")
	runs := fs.Int("runs", 4, "timed schedules")
	seed := fs.Int64("seed", 1, "seed")
	par := fs.Int("par", 4, "schedules run at the same time")
	fs.Parse(args)
	w, err := tr.NewWriter(*out)
	if err != nil {
		return 2
	}
	// the session registry is process wide and the two engines of a run use fixed session IDs:
	// one run at a time per process; the check starts several processes
	_ = par
	for i := 0; i < *runs; i++ {
		row, err := runOnce(i, *seed*1000+int64(i), i%2 == 1)
		if err != nil {
			fmt.Fprintln(os.Stderr, "live: skipped:", err)
			continue
		}
		w.Put(row)
	}
	w.Close()
	return 0
}
