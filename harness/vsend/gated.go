package vsend

// Forced schedules for C02.  The application callbacks the engine makes while it answers a
// ResendRequest (ToApp for every replayed application message, ToAdmin for every gap fill) are
// points inside the replay.  At each of them the driver starts a goroutine that submits a new
// message with SendToTarget and waits a few milliseconds for it: with the resend lock held the
// submission blocks until the replay is over; if the lock has been released anywhere inside the
// replay the submission completes there and the first-time message reaches the wire between
// replayed ones.  The run also lets the session cross its ResetSeqTime while connected, so that a
// Logon with ResetSeqNumFlag=Y is prepared in the middle of an epoch (the next outbound number is
// not 1 when it is built); the row of the second epoch starts with that Logon.

import (
	"fmt"
	"os"
	"path/filepath"
	"sync"
	"sync/atomic"
	"time"

	"github.com/quickfixgo/quickfix"
	"github.com/quickfixgo/quickfix/config"
	"github.com/quickfixgo/quickfix/log/screen"

	"verifharness/fixscan"
	"verifharness/tr"
	"verifharness/vstore"
)

type resetEvent struct {
	at          int64
	savesBefore int
	nextOut     int
}

func (r *recStore) Reset() error {
	next := r.MessageStore.NextSenderMsgSeqNum()
	err := r.MessageStore.Reset()
	if err == nil {
		r.mu.Lock()
		r.resets = append(r.resets, resetEvent{atomic.AddInt64(&clock, 1), len(r.saves), next})
		r.mu.Unlock()
	}
	return err
}

type gapp struct {
	app
	id        quickfix.SessionID
	on        int32
	k         int64
	early     int64
	probes    int64
	wg        sync.WaitGroup
	mu        sync.Mutex
	submitted []int64 // clock stamps of accepted submissions
}

func newOrder(id string) *quickfix.Message {
	m := quickfix.NewMessage()
	m.Header.SetString(35, "D")
	m.Body.SetString(11, id)
	m.Body.SetString(55, "IBM")
	return m
}

func (a *gapp) submit(clid string) { a.submitMsg(newOrder(clid)) }

func (a *gapp) submitMsg(m *quickfix.Message) {
	if quickfix.SendToTarget(m, a.id) == nil {
		at := atomic.AddInt64(&clock, 1)
		a.mu.Lock()
		a.submitted = append(a.submitted, at)
		a.mu.Unlock()
	}
}

func (a *gapp) probe() {
	if atomic.LoadInt32(&a.on) == 0 {
		return
	}
	n := atomic.AddInt64(&a.k, 1)
	atomic.AddInt64(&a.probes, 1)
	done := make(chan struct{})
	a.wg.Add(1)
	go func() {
		defer a.wg.Done()
		a.submit(fmt.Sprintf("p%d", n))
		close(done)
	}()
	select {
	case <-done:
		atomic.AddInt64(&a.early, 1)
	case <-time.After(6 * time.Millisecond):
	}
}

func (a *gapp) ToAdmin(m *quickfix.Message, _ quickfix.SessionID) {
	if t, _ := m.Header.GetString(35); t == "4" {
		a.probe()
	}
}

func (a *gapp) ToApp(m *quickfix.Message, _ quickfix.SessionID) error {
	if m.Header.Has(43) {
		a.probe()
	}
	return nil
}

// runGated: one forced-schedule run; returns one row per sequence-number epoch
func runGated(kind, repo string, runID int) (rows []tr.M, err error) {
	now := time.Now().UTC()
	if now.Hour() == 23 && now.Minute() == 59 && now.Second() > 40 {
		return nil, fmt.Errorf("%w: too close to midnight UTC for a ResetSeqTime a few seconds ahead", errAborted)
	}
	resetAt := now.Add(4 * time.Second).Truncate(time.Second)
	dir, _ := os.MkdirTemp("", "vsend-")
	defer os.RemoveAll(dir)
	id := quickfix.SessionID{BeginString: "FIX.4.2", SenderCompID: "ENG", TargetCompID: "PEER", Qualifier: fmt.Sprintf("g%d", runID)}
	bk := kind
	if bk == "sqlite" {
		bk = "sqlitebusy"
	}
	be, err := vstore.NewBackend(bk, filepath.Join(dir), []quickfix.SessionID{id}, repo)
	if err != nil {
		return nil, err
	}
	rf := &recFactory{inner: be.Factory()}
	ss := quickfix.NewSessionSettings()
	ss.Set(config.BeginString, id.BeginString)
	ss.Set(config.SenderCompID, id.SenderCompID)
	ss.Set(config.TargetCompID, id.TargetCompID)
	ss.Set(config.SessionQualifier, id.Qualifier)
	ss.Set(config.HeartBtInt, "30")
	ss.Set(config.SocketConnectHost, "127.0.0.1")
	ss.Set(config.SocketConnectPort, "1")
	ss.Set(config.ResetSeqTime, resetAt.Format("15:04:05"))
	var lf quickfix.LogFactory = quickfix.NewNullLogFactory()
	if os.Getenv("VERIF_DEBUG") != "" {
		lf = screen.NewLogFactory()
	}
	a := &gapp{id: id}
	v, err := quickfix.VerifNewSession(id, rf, ss, lf, a, true)
	if err != nil {
		return nil, err
	}
	if err := v.VerifRegister(); err != nil {
		return nil, err
	}
	defer v.VerifUnregister()
	done := make(chan struct{})
	go func() { v.Run(); close(done) }()
	in := quickfix.VerifNewIn(256)
	out := make(chan []byte, 8)
	if err := v.RunConnect(in, out); err != nil {
		return nil, err
	}
	type wireEv struct {
		b  []byte
		at int64
	}
	var wire []wireEv
	var wmu sync.Mutex
	readerDone := make(chan struct{})
	hbSeen := make(chan string, 4096)
	resetLogon := make(chan struct{}, 4)
	go func() {
		defer close(readerDone)
		for b := range out {
			at := atomic.AddInt64(&clock, 1)
			wmu.Lock()
			wire = append(wire, wireEv{append([]byte(nil), b...), at})
			nw := len(wire)
			wmu.Unlock()
			sc := fixscan.Scan(b, false)
			t, _ := sc.Get(35)
			if t == "0" {
				if idv, ok := sc.Get(112); ok {
					select {
					case hbSeen <- idv:
					default:
					}
				}
			}
			if f, _ := sc.Get(141); t == "A" && f == "Y" && nw > 1 {
				resetLogon <- struct{}{}
			}
		}
	}()
	wlen := func() int { wmu.Lock(); defer wmu.Unlock(); return len(wire) }
	// the engine (initiator) sends its Logon; answer it
	deadline := time.Now().Add(5 * time.Second)
	for wlen() == 0 && time.Now().Before(deadline) {
		time.Sleep(time.Millisecond)
	}
	if wlen() == 0 {
		return nil, fmt.Errorf("%w: no Logon from the initiator", errAborted)
	}
	peerSeq := 1
	in.Put(inbound("A", peerSeq, fixscan.F(98, "0"), fixscan.F(108, "30")))
	peerSeq++
	waitHB := func(want string) bool {
		t := time.After(10 * time.Second)
		for {
			select {
			case got := <-hbSeen:
				if got == want {
					return true
				}
			case <-t:
				return false
			}
		}
	}
	var epochWindows [2][]interface{}
	epoch := 0
	base := 0 // wire position where the current epoch starts
	phase := func(tag string, rounds int) error {
		var wg sync.WaitGroup
		for g := 0; g < 3; g++ {
			wg.Add(1)
			go func(g int) {
				defer wg.Done()
				// the first sender reuses one Message object for all its submissions, as applications do
				reused := newOrder("")
				for k := 0; k < 3; k++ {
					id := fmt.Sprintf("%s-g%d-%d", tag, g, k)
					if g == 0 {
						reused.Body.SetString(11, id)
						a.submitMsg(reused)
					} else {
						a.submit(id)
					}
				}
			}(g)
		}
		wg.Wait()
		for r := 0; r < rounds; r++ {
			// an admin message at the end of the history: the replay ends with a gap fill
			tid := fmt.Sprintf("T%s-%d-%d", tag, runID, r)
			in.Put(inbound("1", peerSeq, fixscan.F(112, tid)))
			peerSeq++
			if !waitHB(tid) {
				return silent(v, tid)
			}
			from := wlen()
			atomic.StoreInt32(&a.on, 1)
			if r == 0 {
				// a bounded request (the replay stops before the end of what is stored)
				in.Put(inbound("2", peerSeq, fixscan.F(7, "2"), fixscan.F(16, "4")))
			} else {
				in.Put(inbound("2", peerSeq, fixscan.F(7, "1"), fixscan.F(16, "0")))
			}
			peerSeq++
			wid := fmt.Sprintf("W%s-%d-%d", tag, runID, r)
			in.Put(inbound("1", peerSeq, fixscan.F(112, wid)))
			peerSeq++
			ok := waitHB(wid)
			atomic.StoreInt32(&a.on, 0)
			if !ok {
				return silent(v, wid)
			}
			a.wg.Wait()
			epochWindows[epoch] = append(epochWindows[epoch], []interface{}{from + 1 - base, wlen() - base})
			// a rejected message: engine generated traffic in the middle of the history
			in.Put(inbound("D", peerSeq, fixscan.F(11, "x"), fixscan.F(58, "")))
			peerSeq++
			a.submit(fmt.Sprintf("%s-mid-%d", tag, r))
		}
		// quiescence
		tid := fmt.Sprintf("Q%s-%d", tag, runID)
		in.Put(inbound("1", peerSeq, fixscan.F(112, tid)))
		peerSeq++
		if !waitHB(tid) {
			return silent(v, tid)
		}
		return nil
	}
	readback := func() map[int][]byte {
		out := map[int][]byte{}
		next := rf.st.NextSenderMsgSeqNum()
		for n := 1; n < next; n++ {
			if msgs, err := rf.st.MessageStore.GetMessages(n, n); err == nil && len(msgs) == 1 {
				out[n] = append([]byte(nil), msgs[0]...)
			}
		}
		return out
	}
	if err := phase("e1", 2); err != nil {
		return nil, err
	}
	stored := [2]map[int][]byte{}
	stored[0] = readback()
	if time.Now().UTC().After(resetAt.Add(-300 * time.Millisecond)) {
		return nil, fmt.Errorf("%w: the first epoch took too long, the reset time has passed", errAborted)
	}
	select {
	case <-resetLogon:
	case <-time.After(9 * time.Second):
		return nil, fmt.Errorf("%w: no reset Logon within 9s of waiting for ResetSeqTime %s", errAborted, resetAt.Format("15:04:05"))
	}
	base = wlen() - 1
	epoch = 1
	peerSeq = 1
	in.Put(inbound("A", peerSeq, fixscan.F(98, "0"), fixscan.F(108, "30"), fixscan.F(141, "Y")))
	peerSeq++
	if err := phase("e2", 2); err != nil {
		return nil, err
	}
	time.Sleep(30 * time.Millisecond)
	v.RunStop()
	in.Close()
	select {
	case <-done:
	case <-time.After(5 * time.Second):
	}
	select {
	case <-readerDone:
	case <-time.After(2 * time.Second):
	}
	stored[1] = readback() // after the run loop has ended (its Logout is the last message on the wire)
	wmu.Lock()
	defer wmu.Unlock()
	rf.st.mu.Lock()
	defer rf.st.mu.Unlock()
	if len(rf.st.resets) != 1 {
		return nil, fmt.Errorf("%w: %d store resets seen, expected exactly the ResetSeqTime one", errAborted, len(rf.st.resets))
	}
	rs := rf.st.resets[0]
	for e := 0; e < 2; e++ {
		var saves []saveEvent
		if e == 0 {
			saves = rf.st.saves[:rs.savesBefore]
		} else {
			saves = rf.st.saves[rs.savesBefore:]
		}
		savedAt := map[int]int64{}
		savedBytes := map[int][]byte{}
		dupSave := false
		savedNums := []interface{}{}
		for _, s := range saves {
			if _, ok := savedAt[s.n]; ok {
				dupSave = true
			}
			savedAt[s.n] = s.at
			savedBytes[s.n] = s.b
			savedNums = append(savedNums, s.n)
		}
		w := []interface{}{}
		for _, ev := range wire {
			if (ev.at < rs.at) != (e == 0) {
				continue
			}
			sc := fixscan.Scan(ev.b, false)
			t, _ := sc.Get(35)
			n := sc.Int(34, 0)
			pd, _ := sc.Get(43)
			admin := len(t) == 1 && (t[0] >= '0' && t[0] <= '5' || t[0] == 'A')
			persisted := false
			if at, ok := savedAt[n]; ok && pd != "Y" {
				persisted = at < ev.at && string(savedBytes[n]) == string(ev.b)
			}
			// the store itself (not the recording wrapper) returns exactly these bytes under n at the end of the epoch
			w = append(w, tr.M{"n": n, "pd": pd == "Y", "app": !admin, "persisted": persisted,
				"stored": pd == "Y" || string(stored[e][n]) == string(ev.b)})
		}
		sub := 0
		for _, at := range a.submitted {
			if (at < rs.at) == (e == 0) {
				sub++
			}
		}
		next := rs.nextOut
		if e == 1 {
			next = rf.st.NextSenderMsgSeqNum()
		}
		rows = append(rows, tr.M{"run": runID, "store": kind, "senders": 3, "per": 3, "submitted": sub, "wire": w, "saved": savedNums,
			"dupSave": dupSave, "nextOut": next, "windows": epochWindows[e], "gated": true, "epoch": e + 1,
			"probes": int(atomic.LoadInt64(&a.probes)), "early": int(atomic.LoadInt64(&a.early))})
	}
	return rows, nil
}
