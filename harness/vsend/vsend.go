// Package vsend runs real sender goroutines against a real session's run loop and records what C02
// talks about: the order of messages on the outbound channel, what the store was given and when,
// and which submissions were accepted.
package vsend

import (
	"errors"
	"flag"
	"fmt"
	"github.com/quickfixgo/quickfix/log/screen"
	"os"
	"path/filepath"
	"runtime"
	"strconv"
	"strings"
	"sync"
	"sync/atomic"
	"time"

	"github.com/quickfixgo/quickfix"
	"github.com/quickfixgo/quickfix/config"

	"verifharness/fixscan"
	"verifharness/tr"
	"verifharness/vstore"
)

var clock int64 // global event counter: causal order of store saves vs wire receipts

type saveEvent struct {
	n  int
	at int64
	b  []byte
}

type recStore struct {
	quickfix.MessageStore
	mu     sync.Mutex
	saves  []saveEvent
	resets []resetEvent
}

func (r *recStore) SaveMessageAndIncrNextSenderMsgSeqNum(n int, b []byte) error {
	err := r.MessageStore.SaveMessageAndIncrNextSenderMsgSeqNum(n, b)
	if err == nil {
		r.mu.Lock()
		r.saves = append(r.saves, saveEvent{n, atomic.AddInt64(&clock, 1), append([]byte(nil), b...)})
		r.mu.Unlock()
	}
	return err
}

type recFactory struct {
	inner quickfix.MessageStoreFactory
	st    *recStore
}

func (f *recFactory) Create(id quickfix.SessionID) (quickfix.MessageStore, error) {
	s, err := f.inner.Create(id)
	if err != nil {
		return nil, err
	}
	f.st = &recStore{MessageStore: s}
	return f.st, nil
}

type app struct{}

func (app) OnCreate(quickfix.SessionID)                       {}
func (app) OnLogon(quickfix.SessionID)                        {}
func (app) OnLogout(quickfix.SessionID)                       {}
func (app) ToAdmin(*quickfix.Message, quickfix.SessionID)     {}
func (app) ToApp(*quickfix.Message, quickfix.SessionID) error { return nil }
func (app) FromAdmin(*quickfix.Message, quickfix.SessionID) quickfix.MessageRejectError {
	return nil
}
func (app) FromApp(*quickfix.Message, quickfix.SessionID) quickfix.MessageRejectError { return nil }

func ts() string { return time.Now().UTC().Format("20060102-15:04:05.000") }

func inbound(t string, seq int, extra ...fixscan.KV) []byte {
	f := []fixscan.KV{fixscan.F(35, t), fixscan.F(49, "PEER"), fixscan.F(56, "ENG"), fixscan.F(34, strconv.Itoa(seq)), fixscan.F(52, ts())}
	f = append(f, extra...)
	return fixscan.Build("FIX.4.2", f)
}

// one stress run; returns the observation row
func runOnce(kind, repo string, senders, per, rounds int, runID int) (row tr.M, err error) {
	dir, _ := os.MkdirTemp("", "vsend-")
	defer os.RemoveAll(dir)
	id := quickfix.SessionID{BeginString: "FIX.4.2", SenderCompID: "ENG", TargetCompID: "PEER", Qualifier: fmt.Sprintf("r%d", runID)}
	bk := kind
	if bk == "sqlite" {
		bk = "sqlitebusy"
	}
	be, err := vstore.NewBackend(bk, filepath.Join(dir), []quickfix.SessionID{id}, repo)
	if err != nil {
		return nil, err
	}
	rf := &recFactory{inner: be.Factory()}
	ss := quickfix.NewSessionSettings()
	ss.Set(config.BeginString, id.BeginString)
	ss.Set(config.SenderCompID, id.SenderCompID)
	ss.Set(config.TargetCompID, id.TargetCompID)
	ss.Set(config.SessionQualifier, id.Qualifier)
	var lf quickfix.LogFactory = quickfix.NewNullLogFactory()
	if os.Getenv("VERIF_DEBUG") != "" {
		lf = screen.NewLogFactory()
	}
	v, err := quickfix.VerifNewSession(id, rf, ss, lf, app{}, false)
	if err != nil {
		return nil, err
	}
	if err := v.VerifRegister(); err != nil {
		return nil, err
	}
	defer v.VerifUnregister()
	done := make(chan struct{})
	go func() { v.Run(); close(done) }()
	in := quickfix.VerifNewIn(256)
	out := make(chan []byte, 8) // a small channel: senders and the loop compete for it
	if err := v.RunConnect(in, out); err != nil {
		return nil, err
	}
	type wireEv struct {
		b  []byte
		at int64
	}
	var wire []wireEv
	var wmu sync.Mutex
	readerDone := make(chan struct{})
	hbSeen := make(chan string, 1024)
	go func() {
		defer close(readerDone)
		for b := range out {
			at := atomic.AddInt64(&clock, 1)
			wmu.Lock()
			wire = append(wire, wireEv{append([]byte(nil), b...), at})
			wmu.Unlock()
			sc := fixscan.Scan(b, false)
			if t, _ := sc.Get(35); t == "0" {
				if idv, ok := sc.Get(112); ok {
					select {
					case hbSeen <- idv:
					default:
					}
				}
			}
		}
	}()
	peerSeq := 1
	in.Put(inbound("A", peerSeq, fixscan.F(98, "0"), fixscan.F(108, "30")))
	peerSeq++
	// wait for the logon reply
	deadline := time.Now().Add(5 * time.Second)
	for {
		wmu.Lock()
		n := len(wire)
		wmu.Unlock()
		if n > 0 || time.Now().After(deadline) {
			break
		}
		time.Sleep(time.Millisecond)
	}
	var submitted int64
	var wg sync.WaitGroup
	for g := 0; g < senders; g++ {
		wg.Add(1)
		go func(g int) {
			defer wg.Done()
			for k := 0; k < per; k++ {
				m := quickfix.NewMessage()
				m.Header.SetString(35, "D")
				m.Body.SetString(11, fmt.Sprintf("g%d-%d", g, k))
				m.Body.SetString(55, "IBM")
				if e := quickfix.SendToTarget(m, id); e == nil {
					atomic.AddInt64(&submitted, 1)
				}
				if k%7 == 0 {
					time.Sleep(time.Microsecond * 50)
				}
			}
		}(g)
	}
	// the peer: resend requests delimited by test requests, bad messages in between
	var windows []interface{}
	waitHB := func(want string) bool {
		t := time.After(10 * time.Second)
		for {
			select {
			case got := <-hbSeen:
				if got == want {
					return true
				}
			case <-t:
				return false
			}
		}
	}
	for r := 0; r < rounds; r++ {
		wmu.Lock()
		from := len(wire)
		wmu.Unlock()
		in.Put(inbound("2", peerSeq, fixscan.F(7, "1"), fixscan.F(16, "0")))
		peerSeq++
		tid := fmt.Sprintf("W%d-%d", runID, r)
		in.Put(inbound("1", peerSeq, fixscan.F(112, tid)))
		peerSeq++
		if !waitHB(tid) {
			return nil, silent(v, tid)
		}
		wmu.Lock()
		to := len(wire)
		wmu.Unlock()
		windows = append(windows, []interface{}{from + 1, to})
		// a message that earns a Reject (engine generated traffic from the loop)
		in.Put(inbound("D", peerSeq, fixscan.F(11, "x"), fixscan.F(58, "")))
		peerSeq++
		time.Sleep(time.Millisecond * 2)
	}
	wg.Wait()
	// quiescence: a final test request, then nothing new for a while
	in.Put(inbound("1", peerSeq, fixscan.F(112, "END")))
	peerSeq++
	if !waitHB("END") {
		return nil, silent(v, "END")
	}
	time.Sleep(50 * time.Millisecond)
	v.RunStop()
	in.Close()
	select {
	case <-done:
	case <-time.After(5 * time.Second):
	}
	select {
	case <-readerDone:
	case <-time.After(2 * time.Second):
	}
	// project
	wmu.Lock()
	defer wmu.Unlock()
	rf.st.mu.Lock()
	defer rf.st.mu.Unlock()
	savedAt := map[int]int64{}
	savedBytes := map[int][]byte{}
	dupSave := false
	var savedNums []interface{}
	for _, s := range rf.st.saves {
		if _, ok := savedAt[s.n]; ok {
			dupSave = true
		}
		savedAt[s.n] = s.at
		savedBytes[s.n] = s.b
		savedNums = append(savedNums, s.n)
	}
	w := []interface{}{}
	for _, e := range wire {
		sc := fixscan.Scan(e.b, false)
		t, _ := sc.Get(35)
		n := sc.Int(34, 0)
		pd, _ := sc.Get(43)
		admin := len(t) == 1 && (t[0] >= '0' && t[0] <= '5' || t[0] == 'A')
		persisted := false
		if at, ok := savedAt[n]; ok && pd != "Y" {
			persisted = at < e.at && string(savedBytes[n]) == string(e.b)
		}
		stored := pd == "Y"
		if !stored {
			if msgs, err := rf.st.MessageStore.GetMessages(n, n); err == nil && len(msgs) == 1 && string(msgs[0]) == string(e.b) {
				stored = true
			}
		}
		w = append(w, tr.M{"n": n, "pd": pd == "Y", "app": !admin, "persisted": persisted, "stored": stored})
	}
	row = tr.M{"run": runID, "store": kind, "senders": senders, "per": per, "submitted": int(submitted), "wire": w, "saved": savedNums,
		"dupSave": dupSave, "nextOut": rf.st.NextSenderMsgSeqNum(), "windows": windows}
	return row, nil
}

// errAborted: the session left the logged-on state on its own during the run (e.g. the store
// returned an error and the engine logged out): the run says nothing about C02 and is skipped
var errAborted = errors.New("run aborted")

// silent decides what a missing heartbeat means: a session that is still logged on and does not
// answer is stuck; a session that logged out / disconnected by itself made the run void.
func silent(v *quickfix.VerifSession, tid string) error {
	st := v.StateName()
	if st == "inSession" || st == "resend" || strings.HasPrefix(st, "pending") {
		dumpStacks()
		return fmt.Errorf("no heartbeat for %s within 10s, session state %s (engine stuck?)", tid, st)
	}
	return fmt.Errorf("%w: no heartbeat for %s, the session is in state %s", errAborted, tid, st)
}

func dumpStacks() {
	buf := make([]byte, 1<<20)
	n := runtime.Stack(buf, true)
	os.Stderr.Write(buf[:n])
}

// Main: vh send -out trace.ndjson -store memory -runs 3 -senders 4 -per 150 -rounds 6
func Main(args []string) int {
	fs := flag.NewFlagSet("send", flag.ExitOnError)
	out := fs.String("out", "", "trace ndjson")
	kind := fs.String("store", "memory", "memory|file|sqlite")
	repo := fs.String("repo", "/repo", "repo root")
	runs := fs.Int("runs", 3, "stress runs")
	senders := fs.Int("senders", 4, "sender goroutines")
	per := fs.Int("per", 150, "messages per sender")
	rounds := fs.Int("rounds", 6, "resend rounds")
	gated := fs.Int("gated", 0, "forced-schedule runs (probes at every callback inside a replay, ResetSeqTime crossing)")
	fs.Parse(args)
	w, err := tr.NewWriter(*out)
	if err != nil {
		return 2
	}
	for i := 0; i < *gated; i++ {
		rows, err := runGated(*kind, *repo, i)
		if errors.Is(err, errAborted) {
			fmt.Fprintln(os.Stderr, "send: skipped:", err)
			continue
		}
		if err != nil {
			fmt.Fprintln(os.Stderr, "send:", err)
			w.Close()
			return 2
		}
		for _, r := range rows {
			w.Put(r)
		}
	}
	for i := 0; i < *runs; i++ {
		row, err := runOnce(*kind, *repo, *senders, *per, *rounds, i)
		if errors.Is(err, errAborted) {
			fmt.Fprintln(os.Stderr, "send: skipped:", err)
			continue
		}
		if err != nil {
			fmt.Fprintln(os.Stderr, "send:", err)
			w.Close()
			return 2
		}
		w.Put(row)
	}
	w.Close()
	return 0
}
