// vh: the conformance harness of /verif. One binary, one sub-command per driver.
package main

import (
	"fmt"
	"os"

	"verifharness/vcodec"
	"verifharness/vlive"
	"verifharness/vpair"
	"verifharness/vsend"
	"verifharness/vsession"
	"verifharness/vstore"
)

func main() {
	if len(os.Args) < 2 {
		fmt.Fprintln(os.Stderr, "usage: vh <store|...> [flags]")
		os.Exit(2)
	}
	switch os.Args[1] {
	case "groups":
		os.Exit(vcodec.GroupsMain(os.Args[2:]))
	case "dict":
		os.Exit(vcodec.DictMain(os.Args[2:]))
	case "crash":
		os.Exit(vstore.CrashMain(os.Args[2:]))
	case "sqlfail":
		os.Exit(vstore.SQLFailMain(os.Args[2:]))
	case "store":
		os.Exit(vstore.Main(os.Args[2:]))
	case "fieldmap":
		os.Exit(vcodec.FieldMapMain(os.Args[2:]))
	case "framer":
		os.Exit(vcodec.FramerMain(os.Args[2:]))
	case "robust":
		os.Exit(vcodec.RobustMain(os.Args[2:]))
	case "wire":
		os.Exit(vcodec.WireMain(os.Args[2:]))
	case "validate":
		os.Exit(vcodec.ValidateMain(os.Args[2:]))
	case "values":
		os.Exit(vcodec.ValuesMain(os.Args[2:]))
	case "schedule":
		os.Exit(vcodec.ScheduleMain(os.Args[2:]))
	case "live":
		os.Exit(vlive.Main(os.Args[2:]))
	case "pair":
		os.Exit(vpair.Main(os.Args[2:]))
	case "send":
		os.Exit(vsend.Main(os.Args[2:]))
	case "session":
		os.Exit(vsession.Main(os.Args[2:]))
	default:
		fmt.Fprintln(os.Stderr, "unknown sub-command", os.Args[1])
		os.Exit(2)
	}
}
