// Package tr: ndjson trace/script I/O shared by the drivers.
package tr

import (
	"bufio"
	"encoding/json"
	"io"
	"os"
)

type M = map[string]interface{}

// ReadLines decodes one JSON value per line.
func ReadLines(path string, fn func(M) error) error {
	f, err := os.Open(path)
	if err != nil {
		return err
	}
	defer f.Close()
	r := bufio.NewReaderSize(f, 1<<20)
	for {
		line, err := r.ReadBytes('\n')
		if len(line) > 1 {
			var m M
			if e := json.Unmarshal(line, &m); e != nil {
				return e
			}
			if e := fn(m); e != nil {
				return e
			}
		}
		if err == io.EOF {
			return nil
		}
		if err != nil {
			return err
		}
	}
}

type Writer struct {
	f *os.File
	w *bufio.Writer
	N int
}

func NewWriter(path string) (*Writer, error) {
	f, err := os.Create(path)
	if err != nil {
		return nil, err
	}
	return &Writer{f: f, w: bufio.NewWriterSize(f, 1<<20)}, nil
}

func (w *Writer) Put(v interface{}) {
	b, err := json.Marshal(v)
	if err != nil {
		panic(err)
	}
	w.w.Write(b)
	w.w.WriteByte('\n')
	w.N++
}

func (w *Writer) Close() error {
	if err := w.w.Flush(); err != nil {
		return err
	}
	return w.f.Close()
}

func Int(m M, k string) int {
	switch v := m[k].(type) {
	case float64:
		return int(v)
	case int:
		return v
	}
	return 0
}

func Str(m M, k string) string {
	s, _ := m[k].(string)
	return s
}

func Bool(m M, k string) bool {
	b, _ := m[k].(bool)
	return b
}

func Map(m M, k string) M {
	v, _ := m[k].(map[string]interface{})
	return v
}

func List(m M, k string) []interface{} {
	v, _ := m[k].([]interface{})
	return v
}
