// Package vsession drives a real quickfix session synchronously, one event at a time, and records
// what the implementation did: outbound bytes (projected by fixscan), application callbacks, timer
// re-arms and the projected abstract state after every step (Engine.tla's Post).
package vsession

import (
	"flag"
	"fmt"
	"os"
	"path/filepath"
	"runtime/debug"
	"strconv"
	"strings"
	"sync"
	"time"

	"github.com/quickfixgo/quickfix"
	"github.com/quickfixgo/quickfix/config"

	"verifharness/fixscan"
	"verifharness/tr"
	"verifharness/vstore"
)

const (
	EngID  = "ENG"
	PeerID = "PEER"
)

func bsString(bs int) string {
	switch bs {
	case 40:
		return "FIX.4.0"
	case 41:
		return "FIX.4.1"
	case 42:
		return "FIX.4.2"
	case 43:
		return "FIX.4.3"
	case 44:
		return "FIX.4.4"
	case 50:
		return "FIXT.1.1"
	}
	return "FIX.4.2"
}

// recApp records callbacks; verdicts are decided by message content (tags 9001..9003), so that
// a message kept in the stash and delivered later gets the same answer.
type recApp struct {
	mu    sync.Mutex
	cb    []tr.M
	store func() quickfix.MessageStore
}

func (a *recApp) add(k string, m *quickfix.Message) {
	t, seq := "", 0
	if m != nil {
		if s, err := m.Header.GetString(quickfix.Tag(35)); err == nil {
			t = s
		}
		if !isAdmin(t) && t != "" {
			t = "D"
		}
		if b, err := m.Header.GetBytes(quickfix.Tag(34)); err == nil {
			if n, e := strconv.Atoi(string(b)); e == nil {
				seq = n
			}
		}
	}
	n := 0
	if st := a.store(); st != nil {
		n = st.NextTargetMsgSeqNum()
	}
	a.mu.Lock()
	a.cb = append(a.cb, tr.M{"k": k, "t": t, "seq": seq, "n": n})
	a.mu.Unlock()
}

func isAdmin(t string) bool {
	return len(t) == 1 && strings.Contains("0A12345", t)
}

func (a *recApp) OnCreate(quickfix.SessionID) {}
func (a *recApp) OnLogon(quickfix.SessionID)  { a.add("OnLogon", nil) }
func (a *recApp) OnLogout(quickfix.SessionID) { a.add("OnLogout", nil) }
func (a *recApp) ToAdmin(m *quickfix.Message, _ quickfix.SessionID) {
	a.add("ToAdmin", m)
}
func (a *recApp) ToApp(m *quickfix.Message, _ quickfix.SessionID) error {
	a.add("ToApp", m)
	pd, _ := m.Header.GetString(quickfix.Tag(43))
	if v, err := m.Body.GetString(quickfix.Tag(9002)); err == nil && v == "dns" && pd != "Y" {
		return quickfix.ErrDoNotSend
	}
	if v, err := m.Body.GetString(quickfix.Tag(9003)); err == nil && v == "ref" && pd == "Y" {
		return quickfix.ErrDoNotSend
	}
	return nil
}
func verdict(m *quickfix.Message) quickfix.MessageRejectError {
	v, err := m.Body.GetString(quickfix.Tag(9001))
	if err != nil {
		return nil
	}
	switch v {
	case "rej":
		return quickfix.ValueIsIncorrect(quickfix.Tag(55))
	case "biz":
		return quickfix.UnsupportedMessageType()
	case "rejlogon":
		return quickfix.RejectLogon{Text: "logon refused by application"}
	}
	return nil
}
func (a *recApp) FromAdmin(m *quickfix.Message, _ quickfix.SessionID) quickfix.MessageRejectError {
	a.add("FromAdmin", m)
	return verdict(m)
}
func (a *recApp) FromApp(m *quickfix.Message, _ quickfix.SessionID) quickfix.MessageRejectError {
	a.add("FromApp", m)
	return verdict(m)
}

// recStore remembers the bytes saved under each number (original SendingTime of replays).
type recStore struct {
	quickfix.MessageStore
	mu    sync.Mutex
	saved map[int][]byte
	epoch int
}

func (r *recStore) SaveMessageAndIncrNextSenderMsgSeqNum(n int, b []byte) error {
	r.mu.Lock()
	r.saved[n] = append([]byte(nil), b...)
	r.mu.Unlock()
	return r.MessageStore.SaveMessageAndIncrNextSenderMsgSeqNum(n, b)
}
func (r *recStore) SaveMessage(n int, b []byte) error {
	r.mu.Lock()
	r.saved[n] = append([]byte(nil), b...)
	r.mu.Unlock()
	return r.MessageStore.SaveMessage(n, b)
}
func (r *recStore) Reset() error {
	r.mu.Lock()
	r.saved = map[int][]byte{}
	r.epoch++
	r.mu.Unlock()
	return r.MessageStore.Reset()
}

type recFactory struct {
	inner quickfix.MessageStoreFactory
	last  *recStore
}

func (f *recFactory) Create(id quickfix.SessionID) (quickfix.MessageStore, error) {
	st, err := f.inner.Create(id)
	if err != nil {
		return nil, err
	}
	f.last = &recStore{MessageStore: st, saved: map[int][]byte{}}
	return f.last, nil
}

// Driver is one real session plus its recording collaborators.
type Driver struct {
	Cfg     tr.M
	V       *quickfix.VerifSession
	App     *recApp
	In      *quickfix.VerifIn
	Out     chan []byte
	closed  bool
	rs      *recFactory
	tm      []interface{}
	tmMu    sync.Mutex
	stop    chan struct{}
	bs      string
	tickDay int
	nsend   int
	Wire    [][]byte // raw outbound frames of the last step
}

func cfgBool(c tr.M, k string) bool { return tr.Bool(c, k) }

var timerMu sync.Mutex // the timer hook is a package-level variable in quickfix/internal

// New builds a real session for the abstract configuration cfg on the given store factory.
func New(cfg tr.M, sf quickfix.MessageStoreFactory, id quickfix.SessionID) (*Driver, error) {
	d := &Driver{Cfg: cfg, stop: make(chan struct{})}
	bs := tr.Int(cfg, "bs")
	d.bs = bsString(bs)
	ss := quickfix.NewSessionSettings()
	ss.Set(config.BeginString, d.bs)
	ss.Set(config.SenderCompID, id.SenderCompID)
	ss.Set(config.TargetCompID, id.TargetCompID)
	yn := func(b bool) string {
		if b {
			return "Y"
		}
		return "N"
	}
	ss.Set(config.ResetOnLogon, yn(cfgBool(cfg, "resetOnLogon")))
	ss.Set(config.ResetOnLogout, yn(cfgBool(cfg, "resetOnLogout")))
	ss.Set(config.ResetOnDisconnect, yn(cfgBool(cfg, "resetOnDisconnect")))
	ss.Set(config.RefreshOnLogon, yn(cfgBool(cfg, "refreshOnLogon")))
	if n := tr.Int(cfg, "chunk"); n != 0 {
		ss.Set(config.ResendRequestChunkSize, strconv.Itoa(n))
	}
	ss.Set(config.PersistMessages, yn(cfgBool(cfg, "persist")))
	ss.Set(config.CheckLatency, yn(cfgBool(cfg, "checkLatency")))
	initiator := tr.Str(cfg, "role") == "init"
	if initiator || cfgBool(cfg, "hbOverride") {
		ss.Set(config.HeartBtInt, strconv.Itoa(tr.Int(cfg, "hbCfg")))
	}
	if cfgBool(cfg, "hbOverride") {
		ss.Set(config.HeartBtIntOverride, "Y")
	}
	if initiator {
		ss.Set(config.SocketConnectHost, "127.0.0.1")
		ss.Set(config.SocketConnectPort, "1")
		// keep the AfterFunc logon/logout timers out of the way: the script injects timeouts
		ss.Set(config.LogonTimeout, "3600")
		ss.Set(config.LogoutTimeout, "3600")
	}
	if bs == 50 {
		ss.Set(config.DefaultApplVerID, "FIX.5.0SP2")
	}
	if cfgBool(cfg, "schedule") {
		// a daily window of four hours around the real clock (UTC): every entry point that looks at
		// time.Now() finds itself in the window in which the store was created
		now := time.Now().UTC()
		ss.Set(config.StartTime, now.Add(-2*time.Hour).Format("15:04:05"))
		ss.Set(config.EndTime, now.Add(2*time.Hour).Format("15:04:05"))
	}
	if cfgBool(cfg, "resetSeqTime") {
		ss.Set(config.ResetSeqTime, "12:00:00") // UTC; the ResetTick event moves the clock across it
	}
	if p := tr.Str(cfg, "dd"); p != "" {
		if bs == 50 {
			ss.Set(config.TransportDataDictionary, tr.Str(cfg, "tdd"))
			ss.Set(config.AppDataDictionary, p)
		} else {
			ss.Set(config.DataDictionary, p)
		}
	}
	d.App = &recApp{}
	d.rs = &recFactory{inner: sf}
	v, err := quickfix.VerifNewSession(id, d.rs, ss, quickfix.NewNullLogFactory(), d.App, initiator)
	if err != nil {
		return nil, err
	}
	d.V = v
	d.App.store = func() quickfix.MessageStore { return v.Store() }
	v.InstallTimers()
	v.SwallowEvents(d.stop)
	v.Start()
	return d, nil
}

func (d *Driver) hookTimers() {
	d.V.SetTimerHook(func(which int, dur time.Duration) {
		name := "hb"
		if which == 1 {
			name = "peer"
		}
		d.tmMu.Lock()
		d.tm = append(d.tm, []interface{}{name, int(dur / time.Millisecond)})
		d.tmMu.Unlock()
	})
}

func (d *Driver) Close() {
	close(d.stop)
	d.V.StopTimers()
	if st := d.V.Store(); st != nil {
		st.Close()
	}
}

// ---------------------------------------------------------------- concretisation of inbound messages

func ts(t time.Time) string { return t.UTC().Format("20060102-15:04:05.000") }

// Resolve turns a relative message (rs, rn offsets from the expected inbound number) into an
// absolute one using the real session's counters.
func (d *Driver) Resolve(m tr.M) tr.M {
	out := tr.M{}
	for k, v := range m {
		out[k] = v
	}
	nIn := d.V.Store().NextTargetMsgSeqNum()
	if _, ok := m["rs"]; ok {
		out["seq"] = nIn + tr.Int(m, "rs")
		delete(out, "rs")
	}
	if _, ok := m["rn"]; ok {
		rn := tr.Int(m, "rn")
		if rn == -99 {
			out["newseq"] = 0
		} else {
			out["newseq"] = nIn + rn
		}
		delete(out, "rn")
	}
	return out
}

// Bytes builds the wire form of an absolute abstract inbound message.
func (d *Driver) Bytes(m tr.M) []byte {
	t := tr.Str(m, "t")
	if t == "garbled" {
		// frames correctly (8=..9=..10=) but ParseMessage rejects it: BodyLength disagrees
		return fixscan.BuildRaw(d.bs, "5", []byte("35=0\x0149=PEER\x0156=ENG\x01"), "")
	}
	begin := d.bs
	if tr.Str(m, "bs") == "wrong" {
		if begin == "FIX.4.0" {
			begin = "FIX.4.1"
		} else {
			begin = "FIX.4.0"
		}
	}
	now := time.Now()
	var f []fixscan.KV
	add := func(tag int, v string) { f = append(f, fixscan.F(tag, v)) }
	add(35, t)
	switch tr.Str(m, "cid") {
	case "wrong":
		add(49, "EVIL")
		add(56, EngID)
	case "nosender":
		add(56, EngID)
	case "notarget":
		add(49, PeerID)
	case "emptysender":
		add(49, "")
		add(56, EngID)
	case "emptytarget":
		add(49, PeerID)
		add(56, "")
	default:
		add(49, PeerID)
		add(56, EngID)
	}
	// routing fields that a Reject must reverse
	add(50, "PSUB")
	add(142, "PLOC")
	add(57, "ESUB")
	add(115, "OBO")
	add(128, "DLV")
	switch tr.Str(m, "seqc") {
	case "missing":
	case "garbled":
		add(34, "1x")
	case "empty":
		add(34, "")
	default:
		add(34, strconv.Itoa(tr.Int(m, "seq")))
	}
	st := now
	switch tr.Str(m, "st") {
	case "missing":
	case "bad":
		add(52, "not-a-time")
	case "stale":
		st = now.Add(-time.Hour)
		add(52, ts(st))
	case "future":
		st = now.Add(time.Hour)
		add(52, ts(st))
	default:
		add(52, ts(st))
	}
	switch tr.Str(m, "pd") {
	case "Y":
		add(43, "Y")
	case "N":
		add(43, "N")
	case "bad":
		add(43, "X")
	}
	switch tr.Str(m, "ost") {
	case "ok":
		add(122, ts(st.Add(-5*time.Second)))
	case "after":
		add(122, ts(st.Add(10*time.Second)))
	case "bad":
		add(122, "junk")
	}
	switch t {
	case "A":
		add(98, "0")
		if hb := tr.Int(m, "hb"); hb != 0 {
			add(108, strconv.Itoa(hb))
		}
		switch tr.Str(m, "rsf") {
		case "Y":
			add(141, "Y")
		case "N":
			add(141, "N")
		}
		if d.bs == "FIXT.1.1" && tr.Str(m, "dav") != "none" {
			add(1137, "9")
		}
	case "1", "0":
		if id := tr.Str(m, "trid"); id != "" {
			add(112, id)
		}
	case "2":
		if b := tr.Int(m, "b"); b != -1 {
			add(7, strconv.Itoa(b))
		}
		if e := tr.Int(m, "e"); e != -1 {
			add(16, strconv.Itoa(e))
		}
	case "4":
		switch tr.Str(m, "gf") {
		case "Y":
			add(123, "Y")
		case "N":
			add(123, "N")
		case "bad":
			add(123, "Q")
		}
		if n := tr.Int(m, "newseq"); n != 0 {
			add(36, strconv.Itoa(n))
		}
	case "3":
		add(45, "1")
	case "5":
	default:
		add(11, "in-"+strconv.Itoa(tr.Int(m, "seq")))
		add(55, "IBM")
	}
	if tr.Str(m, "val") == "bad" {
		add(58, "")
	}
	if v := tr.Str(m, "app"); v != "" && v != "ok" {
		add(9001, v)
	}
	return fixscan.Build(begin, f)
}

// ---------------------------------------------------------------- projection of outbound bytes

func (d *Driver) project(b []byte) tr.M {
	sc := fixscan.Scan(b, false)
	t, _ := sc.Get(35)
	o := tr.M{"t": t, "seq": sc.Int(34, 0), "pd": false, "a": 0, "b": 0, "c": 0, "x": "", "rt": "",
		"wf": sc.LenOK && sc.SumOK && sc.Count(10) == 1 && sc.Count(9) == 1 && sc.Err == ""}
	if t == "3" || t == "j" {
		o["rt"] = routingString(sc)
	}
	if v, _ := sc.Get(43); v == "Y" {
		o["pd"] = true
	}
	switch t {
	case "A":
		o["a"] = sc.Int(108, 0)
		if v, _ := sc.Get(141); v == "Y" {
			o["x"] = "Y"
		}
	case "5":
		if _, ok := sc.Get(58); ok {
			o["x"] = "T"
		}
	case "0", "1":
		o["x"], _ = sc.Get(112)
	case "2":
		o["a"] = sc.Int(7, -1)
		o["b"] = sc.Int(16, -1)
	case "4":
		o["a"] = sc.Int(36, 0)
		if v, _ := sc.Get(123); v == "Y" {
			o["x"] = "Y"
		}
	case "3":
		o["a"] = sc.Int(373, -1)
		o["b"] = sc.Int(371, 0)
		o["c"] = sc.Int(45, 0)
	case "j":
		o["a"] = sc.Int(380, -1)
		o["c"] = sc.Int(45, 0)
	default:
		o["t"] = "D"
		if v, ok := sc.Get(11); ok {
			o["x"] = v
		} else {
			o["x"], _ = sc.Get(448)
		}
		if o["pd"] == true {
			// OrigSendingTime must equal the SendingTime of the bytes stored under this number
			ost, _ := sc.Get(122)
			d.rs.last.mu.Lock()
			orig := d.rs.last.saved[sc.Int(34, 0)]
			d.rs.last.mu.Unlock()
			osc := fixscan.Scan(orig, false)
			o52, ok := osc.Get(52)
			c := 0
			if ok && o52 == ost {
				c |= 1
			}
			if orig != nil && bodyOf(osc) == bodyOf(sc) {
				c |= 2
			}
			o["c"] = c
		}
	}
	return o
}

var headerTags = map[int]bool{8: true, 9: true, 35: true, 49: true, 56: true, 115: true, 128: true, 90: true, 91: true, 34: true,
	50: true, 142: true, 57: true, 143: true, 116: true, 144: true, 129: true, 145: true, 43: true, 97: true, 52: true, 122: true,
	212: true, 213: true, 347: true, 369: true, 370: true, 627: true, 628: true, 629: true, 630: true, 1128: true, 1129: true, 1156: true}

// bodyOf returns the raw bytes of the body fields (everything that is not a standard header field or the CheckSum).
func bodyOf(sc *fixscan.Msg) string {
	var sb strings.Builder
	for _, f := range sc.Fields {
		if headerTags[f.Tag] || f.Tag == 10 || f.Tag == 93 || f.Tag == 89 {
			continue
		}
		sb.Write(f.Raw)
		sb.WriteByte(1)
	}
	return sb.String()
}

func routingString(sc *fixscan.Msg) string {
	var parts []string
	for _, tag := range []int{49, 56, 50, 57, 142, 143, 115, 116, 128, 129, 144, 145} {
		if v, ok := sc.Get(tag); ok {
			parts = append(parts, strconv.Itoa(tag)+"="+v)
		}
	}
	return strings.Join(parts, "|")
}

// Routing extracts the routing header fields of an outbound message (C06_ReverseRoute).
func Routing(b []byte) tr.M {
	sc := fixscan.Scan(b, false)
	r := tr.M{}
	for _, tag := range []int{49, 56, 50, 57, 142, 143, 115, 116, 128, 129, 144, 145} {
		if v, ok := sc.Get(tag); ok {
			r[strconv.Itoa(tag)] = v
		}
	}
	return r
}

func (d *Driver) drainOut() []interface{} {
	var out []interface{}
	d.Wire = d.Wire[:0]
	if d.Out == nil {
		return out
	}
	for {
		select {
		case b, ok := <-d.Out:
			if !ok {
				out = append(out, tr.M{"t": "CLOSE", "seq": 0, "pd": false, "a": 0, "b": 0, "c": 0, "x": "", "wf": true, "rt": ""})
				d.Out = nil
				return out
			}
			d.Wire = append(d.Wire, b)
			out = append(out, d.project(b))
		default:
			return out
		}
	}
}

// Post is Engine.tla's Post(s) read from the real session.
func (d *Driver) Post() tr.M {
	st := d.V.Store()
	rrCur, rrEnd := d.V.ResendRange()
	stash := d.V.Stash()
	if stash == nil {
		stash = []int{}
	}
	stasht := []string{}
	for _, t := range d.V.StashTypes() {
		if !isAdmin(t) {
			t = "D"
		}
		stasht = append(stasht, t)
	}
	sent := []interface{}{}
	if msgs, err := st.GetMessages(1, st.NextSenderMsgSeqNum()+3); err == nil {
		for _, b := range msgs {
			sc := fixscan.Scan(b, false)
			t, _ := sc.Get(35)
			rec := tr.M{"n": sc.Int(34, 0), "k": "app", "x": "", "ref": false}
			if isAdmin(t) {
				rec["k"] = "admin"
			} else {
				if v, ok := sc.Get(11); ok {
					rec["x"] = v
				} else {
					rec["x"], _ = sc.Get(448)
				}
				if v, _ := sc.Get(9003); v == "ref" {
					rec["ref"] = true
				}
			}
			sent = append(sent, rec)
		}
	}
	d.rs.last.mu.Lock()
	ep := d.rs.last.epoch
	d.rs.last.mu.Unlock()
	inbuf := 0
	if d.In != nil && d.V.Connected() {
		inbuf = d.In.Len()
	}
	return tr.M{"st": d.V.StateName(), "nIn": st.NextTargetMsgSeqNum(), "nOut": st.NextSenderMsgSeqNum(),
		"stash": stash, "stasht": stasht, "rrEnd": rrEnd, "rrCur": rrCur, "q": d.V.QueueLen(),
		"sentReset": d.V.SentReset(), "conn": d.V.Connected(), "hb": int(d.V.HeartBtInt() / time.Second),
		"pstop": d.V.PendingStop(), "stopped": d.V.Stopped(), "ep": ep, "sent": sent, "inbuf": inbuf}
}

var timeoutCode = map[string]int{"PeerTimeout": 0, "NeedHeartbeat": 1, "LogonTimeout": 2, "LogoutTimeout": 3}

// AppMsg builds an outbound application message for the Send event.
func AppMsg(a tr.M) *quickfix.Message {
	m := quickfix.NewMessage()
	m.Header.SetString(quickfix.Tag(35), "D")
	m.Body.SetString(quickfix.Tag(11), tr.Str(a, "x"))
	m.Body.SetString(quickfix.Tag(55), "IBM")
	if tr.Bool(a, "dns") {
		m.Body.SetString(quickfix.Tag(9002), "dns")
	}
	if tr.Bool(a, "ref") {
		m.Body.SetString(quickfix.Tag(9003), "ref")
	}
	if tr.Str(a, "grp") == "first" {
		// the body starts with the repeating group: no plain field sorts before 453; the body id sits in 448
		m.Body = quickfix.Body{}
		m.Body.Init()
		g := quickfix.NewRepeatingGroup(quickfix.Tag(453), quickfix.GroupTemplate{
			quickfix.GroupElement(quickfix.Tag(448)), quickfix.GroupElement(quickfix.Tag(447)), quickfix.GroupElement(quickfix.Tag(452))})
		e := g.Add()
		e.SetString(quickfix.Tag(448), tr.Str(a, "x"))
		e.SetString(quickfix.Tag(447), "D")
		e.SetString(quickfix.Tag(452), "1")
		m.Body.SetGroup(g)
		m.Body.SetString(quickfix.Tag(1000), "after")
		if tr.Bool(a, "dns") {
			m.Body.SetString(quickfix.Tag(9002), "dns")
		}
		if tr.Bool(a, "ref") {
			m.Body.SetString(quickfix.Tag(9003), "ref")
		}
	} else if tr.Str(a, "grp") == "last" {
		// a repeating group as the last part of the body (453 sorts after 11 and 55)
		g := quickfix.NewRepeatingGroup(quickfix.Tag(453), quickfix.GroupTemplate{
			quickfix.GroupElement(quickfix.Tag(448)), quickfix.GroupElement(quickfix.Tag(447)), quickfix.GroupElement(quickfix.Tag(452))})
		e := g.Add()
		e.SetString(quickfix.Tag(448), "P1")
		e.SetString(quickfix.Tag(447), "D")
		e.SetString(quickfix.Tag(452), "1")
		m.Body.SetGroup(g)
	}
	return m
}

// Step executes one event; the returned row has the absolute event, out, cb, tm, post and,
// if the implementation panicked, "panic".
func (d *Driver) Step(ev tr.M) (row tr.M) {
	d.App.mu.Lock()
	d.App.cb = nil
	d.App.mu.Unlock()
	d.tmMu.Lock()
	d.tm = nil
	d.tmMu.Unlock()
	abs := tr.M{}
	for k, v := range ev {
		abs[k] = v
	}
	row = tr.M{"ev": abs}
	func() {
		defer func() {
			if r := recover(); r != nil {
				row["panic"] = fmt.Sprintf("%v", r)
				row["stack"] = string(debug.Stack())
			}
		}()
		switch tr.Str(ev, "k") {
		case "Connect":
			if d.V.Connected() {
				// the run loop answers "Already connected"; keep our channels
				in := quickfix.VerifNewIn(4)
				_ = d.V.Connect(in, make(chan []byte, 4))
			} else {
				d.In = quickfix.VerifNewIn(4)
				d.Out = make(chan []byte, 4096)
				if err := d.V.Connect(d.In, d.Out); err != nil {
					d.Out = nil
				}
			}
		case "Incoming":
			m := d.Resolve(tr.Map(ev, "m"))
			abs["m"] = m
			d.V.Incoming(d.Bytes(m))
		case "Raw":
			d.V.Incoming([]byte(tr.Str(ev, "bytes")))
		case "Preload":
			m := d.Resolve(tr.Map(ev, "m"))
			abs["m"] = m
			if d.In != nil && d.V.Connected() {
				d.In.Put(d.Bytes(m))
			}
		case "Consume":
			if d.In != nil && d.V.Connected() {
				if b, ok := d.In.Take(); ok {
					d.V.Incoming(b)
				}
			}
		case "Timeout":
			d.V.Timeout(timeoutCode[tr.Str(ev, "e")])
		case "Stop":
			d.V.Stop()
		case "Disconnected":
			d.V.Disconnected()
		case "Flush":
			d.V.SendAppMessages()
		case "Send":
			a := tr.Map(ev, "a")
			if tr.Str(d.Cfg, "dd") != "" {
				// with a dictionary configured the application messages carry a repeating group
				d.nsend++
				shape := "last"
				if d.nsend%2 == 0 {
					shape = "first"
				}
				a = tr.M{"x": a["x"], "dns": a["dns"], "ref": a["ref"], "grp": shape}
			}
			err := d.V.Send(AppMsg(a))
			row["sendErr"] = err != nil
		case "TimeTick":
			// the ticker's schedule check with an instant in the current window, outside any window, or in
			// tomorrow's window
			now := time.Now().UTC()
			switch tr.Str(ev, "e") {
			case "out":
				now = now.Add(6 * time.Hour)
			case "next":
				now = now.Add(24 * time.Hour)
			}
			d.V.Tick(now)
		case "ResetTick":
			// what the run loop's ticker does, a second before and a second after 12:00:00 UTC of a new day
			d.tickDay++
			day := time.Date(2030, 1, 1, 0, 0, 0, 0, time.UTC).AddDate(0, 0, d.tickDay)
			d.V.Tick(day.Add(12*time.Hour - time.Second))
			d.V.Tick(day.Add(12*time.Hour + time.Second))
		}
	}()
	row["out"] = orEmpty(d.drainOut())
	d.App.mu.Lock()
	cbs := make([]interface{}, len(d.App.cb))
	for i, c := range d.App.cb {
		cbs[i] = c
	}
	d.App.mu.Unlock()
	row["cb"] = cbs
	d.tmMu.Lock()
	row["tm"] = orEmpty(d.tm)
	d.tmMu.Unlock()
	if _, bad := row["panic"]; !bad {
		func() {
			defer func() {
				if r := recover(); r != nil {
					row["panic"] = fmt.Sprintf("post: %v", r)
				}
			}()
			row["post"] = d.Post()
		}()
	}
	return row
}

func orEmpty(l []interface{}) []interface{} {
	if l == nil {
		return []interface{}{}
	}
	return l
}

// Main: vh session -scripts in.ndjson -out trace.ndjson [-store memory|file|sqlite]
func Main(args []string) int {
	fs := flag.NewFlagSet("session", flag.ExitOnError)
	in := fs.String("scripts", "", "scripts ndjson")
	out := fs.String("out", "", "trace ndjson")
	kind := fs.String("store", "memory", "memory|file|sqlite")
	repo := fs.String("repo", "/repo", "repository root")
	routing := fs.Bool("routing", false, "record routing fields of outbound rejects")
	raw := fs.Bool("raw", false, "record raw outbound bytes")
	fs.Parse(args)
	w, err := tr.NewWriter(*out)
	if err != nil {
		fmt.Fprintln(os.Stderr, err)
		return 2
	}
	base, err := os.MkdirTemp("", "vsession-")
	if err != nil {
		fmt.Fprintln(os.Stderr, err)
		return 2
	}
	defer os.RemoveAll(base)
	n := 0
	timerMu.Lock()
	defer timerMu.Unlock()
	err = tr.ReadLines(*in, func(sc tr.M) error {
		n++
		dir := filepath.Join(base, fmt.Sprintf("s%d", n))
		os.MkdirAll(dir, 0o755)
		defer os.RemoveAll(dir)
		cfg := tr.Map(sc, "cfg")
		id := quickfix.SessionID{BeginString: bsString(tr.Int(cfg, "bs")), SenderCompID: EngID, TargetCompID: PeerID}
		be, err := vstore.NewBackend(*kind, dir, []quickfix.SessionID{id}, *repo)
		if err != nil {
			return err
		}
		d, err := New(cfg, be.Factory(), id)
		if err != nil {
			return fmt.Errorf("script %v: %w", sc["id"], err)
		}
		d.hookTimers()
		defer d.Close()
		w.Put(tr.M{"ev": tr.M{"k": "TraceReset"}, "tr": sc["id"], "cfg": cfg, "post": d.Post()})
		for i, s := range tr.List(sc, "steps") {
			row := d.Step(s.(map[string]interface{}))
			row["tr"] = sc["id"]
			row["i"] = i
			if *routing {
				var rts []interface{}
				for _, b := range d.Wire {
					rts = append(rts, Routing(b))
				}
				row["routing"] = orEmpty(rts)
			}
			if *raw {
				var rs []interface{}
				for _, b := range d.Wire {
					rs = append(rs, strings.ReplaceAll(string(b), "\x01", "|"))
				}
				row["raw"] = orEmpty(rs)
			}
			w.Put(row)
			if _, bad := row["panic"]; bad {
				break // the session's locks may be held forever after a panic
			}
		}
		return nil
	})
	if err != nil {
		fmt.Fprintln(os.Stderr, "vsession:", err)
		w.Close()
		return 2
	}
	if err := w.Close(); err != nil {
		return 2
	}
	return 0
}
