// Package vpair steps two real sessions (initiator A, acceptor B) against each other over a scripted
// network, executing behaviours of Pair.tla: sends, deliveries, cuts, reconnects, timer events,
// restarts on the persistent store, and the deterministic settling rounds.
package vpair

import (
	"flag"
	"fmt"
	"os"
	"path/filepath"

	"github.com/quickfixgo/quickfix"

	"verifharness/tr"
	"verifharness/vsession"
	"verifharness/vstore"
)

type node struct {
	name string
	d    *vsession.Driver
	id   quickfix.SessionID
	be   *vstore.Backend
	got  []interface{}
}

type world struct {
	n    map[string]*node
	net  map[string][][]byte // "AB", "BA"; nil entry = CLOSE
	kind string
	dir  string
	repo string
}

func other(n string) string {
	if n == "A" {
		return "B"
	}
	return "A"
}
func dir(n string) string {
	if n == "A" {
		return "AB"
	}
	return "BA"
}

var chunkSize = 0 // ResendRequestChunkSize of both engines (-chunk)

func cfgOf(n string) tr.M {
	role := "acc"
	if n == "A" {
		role = "init"
	}
	return tr.M{"role": role, "bs": 42, "resetOnLogon": false, "resetOnLogout": false, "resetOnDisconnect": false, "refreshOnLogon": false,
		"chunk": chunkSize, "persist": true, "checkLatency": true, "hbOverride": false, "hbCfg": 30}
}

func (w *world) newNode(name string) error {
	id := quickfix.SessionID{BeginString: "FIX.4.2", SenderCompID: "ENG", TargetCompID: "PEER"}
	if name == "B" {
		id = quickfix.SessionID{BeginString: "FIX.4.2", SenderCompID: "PEER", TargetCompID: "ENG"}
	}
	old := w.n[name]
	var be *vstore.Backend
	var err error
	if old != nil {
		be = old.be
	} else {
		d := filepath.Join(w.dir, name)
		os.MkdirAll(d, 0o755)
		if be, err = vstore.NewBackend(w.kind, d, []quickfix.SessionID{id}, w.repo); err != nil {
			return err
		}
	}
	drv, err := vsession.New(cfgOf(name), be.Factory(), id)
	if err != nil {
		return err
	}
	nd := &node{name: name, d: drv, id: id, be: be}
	if old != nil {
		nd.got = old.got
	}
	w.n[name] = nd
	return nil
}

// at executes one engine event at node n and moves its outputs into the network
func (w *world) at(n string, ev tr.M) tr.M {
	nd := w.n[n]
	row := nd.d.Step(ev)
	for _, c := range row["cb"].([]interface{}) {
		cb := c.(tr.M)
		if cb["k"] == "FromApp" {
			nd.got = append(nd.got, cb["seq"])
		}
	}
	outs := row["out"].([]interface{})
	wi := 0
	for _, o := range outs {
		if o.(tr.M)["t"] == "CLOSE" {
			w.net[dir(n)] = append(w.net[dir(n)], nil)
		} else {
			w.net[dir(n)] = append(w.net[dir(n)], append([]byte(nil), nd.d.Wire[wi]...))
			wi++
		}
	}
	return row
}

func (w *world) deliver(n string) {
	q := w.net[dir(n)]
	if len(q) == 0 {
		return
	}
	b := q[0]
	w.net[dir(n)] = q[1:]
	if b == nil {
		w.at(other(n), tr.M{"k": "Disconnected"})
	} else {
		w.at(other(n), tr.M{"k": "Raw", "bytes": string(b)})
	}
}

func subs(post tr.M) []interface{} {
	out := []interface{}{}
	for _, s := range post["sent"].([]interface{}) {
		r := s.(tr.M)
		if r["k"] == "app" {
			out = append(out, r["n"])
		}
	}
	return out
}

func (w *world) observe(ev tr.M, id interface{}, i int) tr.M {
	pa, pb := w.n["A"].d.Post(), w.n["B"].d.Post()
	ga := append([]interface{}{}, w.n["A"].got...)
	gb := append([]interface{}{}, w.n["B"].got...)
	return tr.M{"tr": id, "i": i, "ev": ev, "gotA": ga, "gotB": gb, "subA": subs(pa), "subB": subs(pb),
		"a":        tr.M{"st": pa["st"], "nIn": pa["nIn"], "nOut": pa["nOut"], "conn": pa["conn"], "q": pa["q"]},
		"b":        tr.M{"st": pb["st"], "nIn": pb["nIn"], "nOut": pb["nOut"], "conn": pb["conn"], "q": pb["q"]},
		"flightAB": len(w.net["AB"]), "flightBA": len(w.net["BA"])}
}

func (w *world) exec(ev tr.M) {
	n := tr.Str(ev, "n")
	switch tr.Str(ev, "k") {
	case "AppSend":
		w.at(n, tr.M{"k": "Send", "a": tr.M{"x": "b", "dns": false, "ref": false}})
		w.at(n, tr.M{"k": "Flush"})
	case "Deliver":
		w.deliver(n)
	case "Cut":
		if !w.n["A"].d.V.Connected() && !w.n["B"].d.V.Connected() {
			return
		}
		w.net["AB"], w.net["BA"] = nil, nil
		w.at("A", tr.M{"k": "Disconnected"})
		w.at("B", tr.M{"k": "Disconnected"})
		w.net["AB"], w.net["BA"] = nil, nil
	case "Reconnect":
		if w.n["A"].d.V.Connected() || w.n["B"].d.V.Connected() {
			return // a new connection is only made once both ends have let go of the old one
		}
		w.net["AB"], w.net["BA"] = nil, nil
		w.at("B", tr.M{"k": "Connect"})
		w.at("A", tr.M{"k": "Connect"})
	case "Timer":
		w.at(n, tr.M{"k": "Timeout", "e": tr.Str(ev, "e")})
	case "Flush":
		w.at(n, tr.M{"k": "Flush"})
	case "Restart":
		w.n[n].d.Close()
		if err := w.newNode(n); err != nil {
			panic(err)
		}
		w.at(other(n), tr.M{"k": "Disconnected"})
		w.net["AB"], w.net["BA"] = nil, nil
	}
}

// Main: vh pair -scripts in.ndjson -out trace.ndjson -store memory|file
func Main(args []string) int {
	fs := flag.NewFlagSet("pair", flag.ExitOnError)
	in := fs.String("scripts", "", "scripts")
	out := fs.String("out", "", "trace")
	kind := fs.String("store", "memory", "memory|file")
	repo := fs.String("repo", "/repo", "repo root")
	chunk := fs.Int("chunk", 0, "ResendRequestChunkSize of both engines")
	fs.Parse(args)
	chunkSize = *chunk
	wr, err := tr.NewWriter(*out)
	if err != nil {
		return 2
	}
	base, _ := os.MkdirTemp("", "vpair-")
	defer os.RemoveAll(base)
	k := 0
	err = tr.ReadLines(*in, func(sc tr.M) (err error) {
		k++
		w := &world{n: map[string]*node{}, net: map[string][][]byte{"AB": nil, "BA": nil}, kind: *kind, dir: filepath.Join(base, fmt.Sprint(k)), repo: *repo}
		defer func() {
			if r := recover(); r != nil {
				wr.Put(tr.M{"tr": sc["id"], "panic": fmt.Sprintf("%v", r), "ev": tr.M{"k": "Panic"}})
			}
			for _, nd := range w.n {
				nd.d.Close()
			}
			os.RemoveAll(w.dir)
		}()
		if err := w.newNode("A"); err != nil {
			return err
		}
		if err := w.newNode("B"); err != nil {
			return err
		}
		wr.Put(tr.M{"tr": sc["id"], "i": -1, "ev": tr.M{"k": "TraceReset"}})
		i := 0
		put := func(ev tr.M) {
			wr.Put(w.observe(ev, sc["id"], i))
			i++
		}
		for _, s := range tr.List(sc, "steps") {
			ev := s.(map[string]interface{})
			if tr.Str(ev, "k") == "Stabilize" {
				settle := func() {
					for f := 0; f < 60; f++ {
						if len(w.net["AB"]) > 0 {
							w.exec(tr.M{"k": "Deliver", "n": "A"})
							put(tr.M{"k": "Deliver", "n": "A"})
						} else if len(w.net["BA"]) > 0 {
							w.exec(tr.M{"k": "Deliver", "n": "B"})
							put(tr.M{"k": "Deliver", "n": "B"})
						} else {
							return
						}
					}
				}
				for r := 0; r < tr.Int(ev, "rounds"); r++ {
					if !w.n["A"].d.V.Connected() && !w.n["B"].d.V.Connected() {
						w.exec(tr.M{"k": "Reconnect"})
						put(tr.M{"k": "Reconnect"})
					}
					settle()
					for _, n := range []string{"A", "B"} {
						w.exec(tr.M{"k": "Flush", "n": n})
						put(tr.M{"k": "Flush", "n": n})
					}
					settle()
					for _, n := range []string{"A", "B"} {
						w.exec(tr.M{"k": "Timer", "n": n, "e": "NeedHeartbeat"})
						put(tr.M{"k": "Timer", "n": n, "e": "NeedHeartbeat"})
						settle()
					}
				}
				put(tr.M{"k": "Settled"})
				continue
			}
			w.exec(ev)
			put(ev)
		}
		return nil
	})
	if err != nil {
		fmt.Fprintln(os.Stderr, "pair:", err)
		wr.Close()
		return 2
	}
	wr.Close()
	return 0
}
