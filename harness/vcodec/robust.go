package vcodec

import (
	"bytes"
	"flag"
	"fmt"
	"os"
	"strings"
	"time"

	"github.com/quickfixgo/quickfix"
	"github.com/quickfixgo/quickfix/datadictionary"

	"verifharness/tr"
)

// guarded runs f under recover and a watchdog; it returns "" or "panic: ..." / "hang".
func guarded(d time.Duration, f func()) string {
	res := make(chan string, 1)
	go func() {
		defer func() {
			if r := recover(); r != nil {
				res <- fmt.Sprintf("panic: %v", r)
				return
			}
			res <- ""
		}()
		f()
	}()
	select {
	case s := <-res:
		return s
	case <-time.After(d):
		return "hang: no result within " + d.String()
	}
}

// RobustMain: vh robust -cases in.ndjson -out out.ndjson -repo /repo
// case kinds: settings {text}, dict {text}, validate {bytes, spec: "FIX44" | "FIX42" | "FIXT:FIX50SP2" ...}
func RobustMain(args []string) int {
	fs := flag.NewFlagSet("robust", flag.ExitOnError)
	in := fs.String("cases", "", "cases ndjson")
	out := fs.String("out", "", "trace ndjson")
	repo := fs.String("repo", "/repo", "repository root (shipped dictionaries)")
	fs.Parse(args)
	w, err := tr.NewWriter(*out)
	if err != nil {
		fmt.Fprintln(os.Stderr, err)
		return 2
	}
	dds := map[string]*datadictionary.DataDictionary{}
	load := func(name string) *datadictionary.DataDictionary {
		if d, ok := dds[name]; ok {
			return d
		}
		d, e := datadictionary.Parse(*repo + "/spec/" + name + ".xml")
		if e != nil {
			fmt.Fprintln(os.Stderr, "dictionary", name, e)
			os.Exit(2)
		}
		dds[name] = d
		return d
	}
	err = tr.ReadLines(*in, func(c tr.M) error {
		row := tr.M{"id": c["id"], "kind": c["kind"]}
		var res string
		switch tr.Str(c, "kind") {
		case "settings":
			text := tr.Str(c, "text")
			res = guarded(5*time.Second, func() {
				s, e := quickfix.ParseSettings(strings.NewReader(text))
				row["ok"] = e == nil
				if e == nil && s != nil {
					row["sessions"] = len(s.SessionSettings())
				}
			})
		case "dict":
			text := tr.Str(c, "text")
			res = guarded(5*time.Second, func() {
				d, e := datadictionary.ParseSrc(strings.NewReader(text))
				row["ok"] = e == nil
				if e == nil && d != nil {
					row["messages"] = len(d.Messages)
				}
			})
		case "validate":
			raw := codes(c["bytes"])
			spec := tr.Str(c, "spec")
			res = guarded(5*time.Second, func() {
				var tdd, add *datadictionary.DataDictionary
				if strings.HasPrefix(spec, "FIXT:") {
					tdd, add = load("FIXT11"), load(strings.TrimPrefix(spec, "FIXT:"))
				} else {
					add = load(spec)
				}
				m := quickfix.NewMessage()
				e := quickfix.ParseMessageWithDataDictionary(m, bytes.NewBuffer(raw), tdd, add)
				row["parsed"] = e == nil
				if e != nil {
					return
				}
				v := quickfix.NewValidator(quickfix.ValidatorSettings{CheckFieldsOutOfOrder: true, RejectInvalidMessage: true,
					CheckUserDefinedFields: true, CheckFieldsHaveValues: true}, add, tdd)
				rej := v.Validate(m)
				row["valid"] = rej == nil
				if rej != nil {
					row["reason"] = rej.RejectReason()
				}
			})
		}
		if res != "" {
			row["panic"] = res
		}
		w.Put(row)
		return nil
	})
	if err != nil {
		fmt.Fprintln(os.Stderr, "robust:", err)
		w.Close()
		return 2
	}
	w.Close()
	return 0
}
