package vcodec

import (
	"bytes"
	"flag"
	"fmt"
	"os"

	"github.com/quickfixgo/quickfix"

	"verifharness/fixscan"
	"verifharness/tr"
)

type strField struct {
	tag quickfix.Tag
	v   string
}

func (f strField) Tag() quickfix.Tag { return f.tag }
func (f strField) Write() []byte     { return []byte(f.v) }

func section(m *quickfix.Message, s string) *quickfix.FieldMap {
	switch s {
	case "h":
		return &m.Header.FieldMap
	case "t":
		return &m.Trailer.FieldMap
	}
	return &m.Body.FieldMap
}

func groupTemplate() quickfix.GroupTemplate {
	return quickfix.GroupTemplate{quickfix.GroupElement(448), quickfix.GroupElement(447)}
}

func secOfTag(t int) string {
	switch t {
	case 8, 9, 35, 49, 50, 56, 57:
		return "h"
	case 93, 89, 10:
		return "t"
	}
	return "b"
}

// observe builds the message and reports what C10 talks about.
func observe(m *quickfix.Message, group []interface{}, hasGroup bool) tr.M {
	b := []byte(m.String())
	sc := fixscan.Scan(b, false)
	fields := []interface{}{}
	for _, f := range sc.Fields {
		fields = append(fields, []interface{}{f.Tag, string(f.Val)})
	}
	obs := tr.M{"fields": fields, "lenOK": sc.LenOK, "sumOK": sc.SumOK, "bytes": string(bytes.ReplaceAll(b, []byte{1}, []byte("|")))}
	// parse the bytes again
	p := quickfix.NewMessage()
	reparse := true
	why := ""
	if err := quickfix.ParseMessage(p, bytes.NewBuffer(b)); err != nil {
		reparse, why = false, "parse: "+err.Error()
	} else {
		count := map[int]int{}
		for _, f := range sc.Fields {
			count[f.Tag]++
		}
		seen := map[int]bool{}
		for _, f := range sc.Fields {
			if f.Tag == 448 || f.Tag == 447 || count[f.Tag] != 1 {
				continue // group members are read back through the template below
			}
			seen[f.Tag] = true
			got, err := section(p, secOfTag(f.Tag)).GetBytes(quickfix.Tag(f.Tag))
			if err != nil || !bytes.Equal(got, f.Val) {
				reparse, why = false, fmt.Sprintf("tag %d: got %q err %v", f.Tag, got, err)
			}
		}
		for _, s := range []string{"h", "b", "t"} {
			for _, t := range section(p, s).Tags() {
				if !seen[int(t)] && int(t) != 448 && int(t) != 447 && count[int(t)] == 1 {
					reparse, why = false, fmt.Sprintf("extra tag %d in section %s", t, s)
				}
			}
		}
		if hasGroup {
			// read back through a template that also knows the field the scripts may add to an entry beyond the
			// template it was written with (what a narrower template makes of such a group is C13's subject)
			rg := quickfix.NewRepeatingGroup(453, append(groupTemplate(), quickfix.GroupElement(9998)))
			if err := p.Body.GetGroup(rg); err != nil {
				reparse, why = false, "GetGroup: "+err.Error()
			} else if rg.Len() != len(group) {
				reparse, why = false, fmt.Sprintf("group entries %d want %d", rg.Len(), len(group))
			} else {
				for i, e := range group {
					for _, pr := range e.([]interface{}) {
						pair := pr.([]interface{})
						got, err := rg.Get(i).GetBytes(quickfix.Tag(int(pair[0].(float64))))
						if err != nil || string(got) != pair[1].(string) {
							reparse, why = false, fmt.Sprintf("group entry %d tag %v: %q %v", i, pair[0], got, err)
						}
					}
				}
			}
		}
		if !bytes.Equal(p.Bytes(), b) {
			reparse, why = false, "Bytes() differ from the input"
		}
	}
	obs["reparse"] = reparse
	if why != "" {
		obs["why"] = why
	}
	// copy into a fresh message and into one that already carries fields in every section
	c := quickfix.NewMessage()
	m.CopyInto(c)
	d := quickfix.NewMessage()
	d.Header.SetString(8, "FIX.4.0")
	d.Header.SetString(35, "0")
	d.Header.SetString(57, "stale")
	d.Body.SetString(58, "stale")
	d.Body.SetString(1, "stale")
	d.Trailer.SetString(89, "stale")
	m.CopyInto(d)
	obs["copySame"] = c.String() == string(b) && d.String() == string(b)
	return obs
}

// FieldMapMain: vh fieldmap -scripts in.ndjson -out trace.ndjson
func FieldMapMain(args []string) int {
	fs := flag.NewFlagSet("fieldmap", flag.ExitOnError)
	in := fs.String("scripts", "", "scripts ndjson")
	out := fs.String("out", "", "trace ndjson")
	fs.Parse(args)
	w, err := tr.NewWriter(*out)
	if err != nil {
		fmt.Fprintln(os.Stderr, err)
		return 2
	}
	err = tr.ReadLines(*in, func(sc tr.M) error {
		m := quickfix.NewMessage()
		m.Header.SetString(8, "FIX.4.2")
		m.Header.SetString(35, "D")
		var group []interface{}
		hasGroup := false
		w.Put(tr.M{"op": tr.M{"k": "TraceReset"}, "tr": sc["id"]})
		for i, sraw := range tr.List(sc, "steps") {
			op := sraw.(map[string]interface{})
			row := tr.M{"tr": sc["id"], "i": i, "op": op}
			func() {
				defer func() {
					if r := recover(); r != nil {
						row["panic"] = fmt.Sprintf("%v", r)
					}
				}()
				fm := section(m, tr.Str(op, "s"))
				tag := quickfix.Tag(tr.Int(op, "tag"))
				switch tr.Str(op, "k") {
				case "Set":
					v := tr.Str(op, "v")
					switch (int(tag) + len(v) + i) % 4 {
					case 0:
						fm.SetString(tag, v)
					case 1:
						fm.SetField(tag, quickfix.FIXString(v))
					case 2:
						fm.SetBytes(tag, []byte(v))
					default:
						fm.Set(strField{tag, v})
					}
					if tag == 453 {
						hasGroup = false
					}
				case "Remove":
					fm.Remove(tag)
					if tag == 453 {
						hasGroup = false
					}
				case "Clear":
					fm.Clear()
					if tr.Str(op, "s") == "h" {
						m.Header.SetString(8, "FIX.4.2")
						m.Header.SetString(35, "D")
					}
					if tr.Str(op, "s") == "b" {
						hasGroup = false
					}
				case "SetGroup":
					rg := quickfix.NewRepeatingGroup(tag, groupTemplate())
					group = tr.List(op, "es")
					for _, e := range group {
						g := rg.Add()
						for _, pr := range e.([]interface{}) {
							pair := pr.([]interface{})
							g.SetString(quickfix.Tag(int(pair[0].(float64))), pair[1].(string))
						}
					}
					fm.SetGroup(rg)
					hasGroup = true
				}
				row["obs"] = observe(m, group, hasGroup)
			}()
			w.Put(row)
			if _, bad := row["panic"]; bad {
				break
			}
		}
		return nil
	})
	if err != nil {
		fmt.Fprintln(os.Stderr, "fieldmap:", err)
		w.Close()
		return 2
	}
	w.Close()
	return 0
}
