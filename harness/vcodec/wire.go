package vcodec

import (
	"bytes"
	"flag"
	"fmt"
	"os"
	"time"

	"github.com/quickfixgo/quickfix"
	"github.com/quickfixgo/quickfix/datadictionary"

	"verifharness/tr"
)

// esc renders a value as ASCII text: bytes outside 0x20..0x7e become \xNN (JSON strings must be UTF-8)
func esc(v []byte) string {
	var sb bytes.Buffer
	for _, c := range v {
		if c < 0x20 || c > 0x7e || c == '\\' {
			fmt.Fprintf(&sb, "\\x%02x", c)
		} else {
			sb.WriteByte(c)
		}
	}
	return sb.String()
}

func pairsOf(fm *quickfix.FieldMap) []interface{} {
	out := []interface{}{}
	for _, t := range fm.Tags() {
		v, err := fm.GetBytes(t)
		if err == nil {
			out = append(out, []interface{}{int(t), esc(v)})
		}
	}
	return out
}

// WireMain: vh wire -cases in.ndjson -out trace.ndjson -tdd transport.xml -add app.xml
// case: {bytes:[ints], dict:"none"|"app"|"fixt", ...ground truth fields passed through}
func WireMain(args []string) int {
	fs := flag.NewFlagSet("wire", flag.ExitOnError)
	in := fs.String("cases", "", "cases ndjson")
	out := fs.String("out", "", "trace ndjson")
	tddPath := fs.String("tdd", "", "transport dictionary")
	addPath := fs.String("add", "", "application dictionary")
	getters := fs.Bool("getters", false, "also run every typed getter on every field (C09)")
	fs.Parse(args)
	var tdd, add *datadictionary.DataDictionary
	var err error
	if *tddPath != "" {
		if tdd, err = datadictionary.Parse(*tddPath); err != nil {
			fmt.Fprintln(os.Stderr, "tdd:", err)
			return 2
		}
	}
	if *addPath != "" {
		if add, err = datadictionary.Parse(*addPath); err != nil {
			fmt.Fprintln(os.Stderr, "add:", err)
			return 2
		}
	}
	w, err := tr.NewWriter(*out)
	if err != nil {
		fmt.Fprintln(os.Stderr, err)
		return 2
	}
	// one Message object is reused for every case, as the engine's resend path does: whatever an
	// earlier parse left behind must not show up in a later one
	shared := quickfix.NewMessage()
	err = tr.ReadLines(*in, func(c tr.M) error {
		raw := codes(c["bytes"])
		row := tr.M{}
		for k, v := range c {
			if k != "bytes" {
				row[k] = v
			}
		}
		obs := tr.M{"ok": false, "hdr": []interface{}{}, "body": []interface{}{}, "trl": []interface{}{}, "order": []interface{}{}, "bytesSame": false}
		done := make(chan struct{})
		go func() {
			defer close(done)
			defer func() {
				if r := recover(); r != nil {
					row["panic"] = fmt.Sprintf("%v", r)
				}
			}()
			m := shared
			var e error
			switch tr.Str(c, "dict") {
			case "app":
				e = quickfix.ParseMessageWithDataDictionary(m, bytes.NewBuffer(append([]byte(nil), raw...)), nil, add)
			case "fixt":
				e = quickfix.ParseMessageWithDataDictionary(m, bytes.NewBuffer(append([]byte(nil), raw...)), tdd, add)
			default:
				e = quickfix.ParseMessage(m, bytes.NewBuffer(append([]byte(nil), raw...)))
			}
			obs["ok"] = e == nil
			if e != nil {
				obs["err"] = e.Error()
			}
			if e == nil {
				obs["hdr"], obs["body"], obs["trl"] = pairsOf(&m.Header.FieldMap), pairsOf(&m.Body.FieldMap), pairsOf(&m.Trailer.FieldMap)
				tags, vals := quickfix.VerifWireFields(m)
				order := []interface{}{}
				for i := range tags {
					order = append(order, []interface{}{tags[i], esc(vals[i])})
				}
				obs["order"] = order
				obs["bytesSame"] = bytes.Equal(m.Bytes(), raw)
			}
			if *getters {
				for _, fm := range []*quickfix.FieldMap{&m.Header.FieldMap, &m.Body.FieldMap, &m.Trailer.FieldMap} {
					for _, t := range fm.Tags() {
						fm.GetInt(t)
						fm.GetBool(t)
						fm.GetTime(t)
						fm.GetString(t)
						fm.GetBytes(t)
						rg := quickfix.NewRepeatingGroup(t, groupTemplate())
						fm.GetGroup(rg)
						rg2 := quickfix.NewRepeatingGroup(t, quickfix.GroupTemplate{quickfix.GroupElement(448), quickfix.GroupElement(447), quickfix.GroupElement(452)})
						fm.GetGroup(rg2)
					}
				}
				_ = m.String()
				m.MsgType()
			}
		}()
		select {
		case <-done:
		case <-time.After(5 * time.Second):
			row["panic"] = "hang: no result within 5s"
		}
		row["obs"] = obs
		w.Put(row)
		return nil
	})
	if err != nil {
		fmt.Fprintln(os.Stderr, "wire:", err)
		w.Close()
		return 2
	}
	w.Close()
	return 0
}
