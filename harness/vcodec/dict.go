package vcodec

import (
	"flag"
	"fmt"
	"os"
	"sort"
	"strings"

	"github.com/quickfixgo/quickfix/datadictionary"

	"verifharness/tr"
)

func sortedKeys(m map[int]*datadictionary.FieldDef) []int {
	out := make([]int, 0, len(m))
	for k := range m {
		out = append(out, k)
	}
	sort.Ints(out)
	return out
}

func sortedSet(m datadictionary.TagSet) []int {
	out := make([]int, 0, len(m))
	for k := range m {
		out = append(out, k)
	}
	sort.Ints(out)
	return out
}

func groupsOf(fields []*datadictionary.FieldDef, path []int, out *[]interface{}) {
	for _, f := range fields {
		if f.IsGroup() {
			p := append(append([]int(nil), path...), f.Tag())
			members := []int{}
			for _, c := range f.Fields {
				members = append(members, c.Tag())
			}
			*out = append(*out, tr.M{"path": p, "members": members})
			groupsOf(f.Fields, p, out)
		}
	}
}

func msgRow(doc int, name string, idx int, m *datadictionary.MessageDef) tr.M {
	var top []*datadictionary.FieldDef
	for _, k := range sortedKeys(m.Fields) {
		top = append(top, m.Fields[k])
	}
	groups := []interface{}{}
	groupsOf(top, nil, &groups)
	return tr.M{"k": "msg", "doc": doc, "name": name, "idx": idx, "fields": sortedKeys(m.Fields), "tags": sortedSet(m.Tags),
		"req": sortedSet(m.RequiredTags), "groups": groups}
}

// DictMain: vh dict -cases in.ndjson -out trace.ndjson
// case: {doc: index (1-based), path | xml, msgtypes: [msgtype per message in document order], fieldnums: [number per field in document order]}
func DictMain(args []string) int {
	fs := flag.NewFlagSet("dict", flag.ExitOnError)
	in := fs.String("cases", "", "cases ndjson")
	out := fs.String("out", "", "trace ndjson")
	fs.Parse(args)
	w, err := tr.NewWriter(*out)
	if err != nil {
		return 2
	}
	err = tr.ReadLines(*in, func(c tr.M) error {
		doc := tr.Int(c, "doc")
		var dd *datadictionary.DataDictionary
		var e error
		res := guarded(20e9, func() {
			if p := tr.Str(c, "path"); p != "" {
				dd, e = datadictionary.Parse(p)
			} else {
				dd, e = datadictionary.ParseSrc(strings.NewReader(tr.Str(c, "xml")))
			}
		})
		row := tr.M{"k": "load", "doc": doc, "refused": e != nil || res != ""}
		if res != "" {
			row["panic"] = res
		}
		if e != nil {
			row["err"] = e.Error()
		}
		w.Put(row)
		if e != nil || dd == nil || res != "" {
			return nil
		}
		for i, mt := range tr.List(c, "msgtypes") {
			m, ok := dd.Messages[mt.(string)]
			if !ok {
				w.Put(tr.M{"k": "msg", "doc": doc, "name": mt, "idx": i + 1, "fields": []int{}, "tags": []int{}, "req": []int{}, "groups": []interface{}{}, "missing": true})
				continue
			}
			w.Put(msgRow(doc, mt.(string), i+1, m))
		}
		if dd.Header != nil {
			w.Put(msgRow(doc, "header", 0, dd.Header))
		}
		if dd.Trailer != nil {
			w.Put(msgRow(doc, "trailer", 0, dd.Trailer))
		}
		for i, n := range tr.List(c, "fieldnums") {
			ft, ok := dd.FieldTypeByTag[int(n.(float64))]
			if !ok {
				w.Put(tr.M{"k": "field", "doc": doc, "idx": i + 1, "type": "<missing>", "enums": []string{}})
				continue
			}
			enums := []string{}
			for v := range ft.Enums {
				enums = append(enums, v)
			}
			sort.Strings(enums)
			w.Put(tr.M{"k": "field", "doc": doc, "idx": i + 1, "type": ft.Type, "enums": enums})
		}
		return nil
	})
	if err != nil {
		fmt.Fprintln(os.Stderr, "dict:", err)
		w.Close()
		return 2
	}
	w.Close()
	return 0
}
