package vcodec

import (
	"bytes"
	"flag"
	"fmt"
	"os"

	"github.com/quickfixgo/quickfix"
	"github.com/quickfixgo/quickfix/datadictionary"

	"verifharness/fixscan"
	"verifharness/tr"
)

func templateOf(members []interface{}) quickfix.GroupTemplate {
	var t quickfix.GroupTemplate
	for _, m := range members {
		it := m.(map[string]interface{})
		if tr.Str(it, "k") == "g" {
			t = append(t, quickfix.NewRepeatingGroup(quickfix.Tag(tr.Int(it, "tag")), templateOf(tr.List(it, "members"))))
		} else {
			t = append(t, quickfix.GroupElement(quickfix.Tag(tr.Int(it, "tag"))))
		}
	}
	return t
}

func itemByTag(members []interface{}, tag int) map[string]interface{} {
	for _, m := range members {
		it := m.(map[string]interface{})
		if tr.Int(it, "tag") == tag {
			return it
		}
	}
	return nil
}

func fill(rg *quickfix.RepeatingGroup, members []interface{}, inst []interface{}) {
	for _, e := range inst {
		g := rg.Add()
		for _, x := range e.([]interface{}) {
			el := x.(map[string]interface{})
			tag := quickfix.Tag(tr.Int(el, "tag"))
			if tr.Str(el, "k") == "g" {
				it := itemByTag(members, int(tag))
				sub := quickfix.NewRepeatingGroup(tag, templateOf(tr.List(it, "members")))
				fill(sub, tr.List(it, "members"), tr.List(el, "inst"))
				g.SetGroup(sub)
			} else {
				g.SetString(tag, tr.Str(el, "v"))
			}
		}
	}
}

func readBack(rg *quickfix.RepeatingGroup, members []interface{}) ([]interface{}, error) {
	out := []interface{}{}
	for i := 0; i < rg.Len(); i++ {
		g := rg.Get(i)
		entry := []interface{}{}
		for _, m := range members {
			it := m.(map[string]interface{})
			tag := quickfix.Tag(tr.Int(it, "tag"))
			if !g.Has(tag) {
				continue
			}
			if tr.Str(it, "k") == "g" {
				sub := quickfix.NewRepeatingGroup(tag, templateOf(tr.List(it, "members")))
				if err := g.GetGroup(sub); err != nil {
					return out, err
				}
				inst, err := readBack(sub, tr.List(it, "members"))
				if err != nil {
					return out, err
				}
				entry = append(entry, tr.M{"k": "g", "tag": int(tag), "v": "", "inst": inst})
			} else {
				v, err := g.GetString(tag)
				if err != nil {
					return out, err
				}
				entry = append(entry, tr.M{"k": "f", "tag": int(tag), "v": v, "inst": []interface{}{}})
			}
		}
		out = append(out, entry)
	}
	return out, nil
}

// GroupsMain: vh groups -cases in.ndjson -out trace.ndjson
// case: {template:{tag,members}, inst, before:[[tag,v]], after:[[tag,v]], begin, msgtype, dict: path|"" , tdict: path|""}
func GroupsMain(args []string) int {
	fs := flag.NewFlagSet("groups", flag.ExitOnError)
	in := fs.String("cases", "", "cases ndjson")
	out := fs.String("out", "", "trace ndjson")
	fs.Parse(args)
	w, err := tr.NewWriter(*out)
	if err != nil {
		return 2
	}
	dds := map[string]*datadictionary.DataDictionary{}
	load := func(p string) (*datadictionary.DataDictionary, error) {
		if p == "" {
			return nil, nil
		}
		if d, ok := dds[p]; ok {
			return d, nil
		}
		d, e := datadictionary.Parse(p)
		if e == nil {
			dds[p] = d
		}
		return d, e
	}
	err = tr.ReadLines(*in, func(c tr.M) error {
		row := tr.M{}
		for k, v := range c {
			row[k] = v
		}
		obs := tr.M{"parsed": false, "wire": []interface{}{}, "back": []interface{}{}, "backErr": false, "afterFound": []interface{}{}}
		res := guarded(10e9, func() {
			add, e1 := load(tr.Str(c, "dict"))
			tdd, e2 := load(tr.Str(c, "tdict"))
			if e1 != nil || e2 != nil {
				obs["dictErr"] = fmt.Sprint(e1, e2)
				return
			}
			tmpl := tr.Map(c, "template")
			members := tr.List(tmpl, "members")
			m := quickfix.NewMessage()
			m.Header.SetString(8, tr.Str(c, "begin"))
			m.Header.SetString(35, tr.Str(c, "msgtype"))
			m.Header.SetString(49, "A")
			m.Header.SetString(56, "B")
			m.Header.SetString(34, "2")
			m.Header.SetString(52, "20240101-00:00:00")
			for _, p := range tr.List(c, "before") {
				pr := p.([]interface{})
				m.Body.SetString(quickfix.Tag(int(pr[0].(float64))), pr[1].(string))
			}
			rg := quickfix.NewRepeatingGroup(quickfix.Tag(tr.Int(tmpl, "tag")), templateOf(members))
			fill(rg, members, tr.List(c, "inst"))
			m.Body.SetGroup(rg)
			for _, p := range tr.List(c, "after") {
				pr := p.([]interface{})
				m.Body.SetString(quickfix.Tag(int(pr[0].(float64))), pr[1].(string))
			}
			b := []byte(m.String())
			if raw, ok := c["raw"]; ok {
				b = codes(raw) // a hand-assembled wire message: the group at an arbitrary position of the body
			}
			sc := fixscan.Scan(b, false)
			wire := []interface{}{}
			for _, f := range sc.Fields {
				wire = append(wire, []interface{}{f.Tag, string(f.Val)})
			}
			obs["wire"] = wire
			obs["bytes"] = string(bytes.ReplaceAll(b, []byte{1}, []byte("|")))
			p := quickfix.NewMessage()
			if e := quickfix.ParseMessageWithDataDictionary(p, bytes.NewBuffer(b), tdd, add); e != nil {
				obs["parseErr"] = e.Error()
				return
			}
			obs["parsed"] = true
			rb := quickfix.NewRepeatingGroup(quickfix.Tag(tr.Int(tmpl, "tag")), templateOf(members))
			if e := p.Body.GetGroup(rb); e != nil {
				obs["backErr"] = true
				obs["backErrText"] = e.Error()
			} else {
				back, e := readBack(rb, members)
				obs["back"] = back
				if e != nil {
					obs["backErr"] = true
					obs["backErrText"] = e.Error()
				}
			}
			found := []interface{}{}
			for _, pr0 := range tr.List(c, "after") {
				pr := pr0.([]interface{})
				v, e := p.Body.GetString(quickfix.Tag(int(pr[0].(float64))))
				found = append(found, e == nil && v == pr[1].(string))
			}
			obs["afterFound"] = found
		})
		if res != "" {
			row["panic"] = res
		}
		row["obs"] = obs
		w.Put(row)
		return nil
	})
	if err != nil {
		fmt.Fprintln(os.Stderr, "groups:", err)
		w.Close()
		return 2
	}
	w.Close()
	return 0
}
