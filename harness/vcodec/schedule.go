// Package vcodec: drivers for the pure-function properties (C10-C15, C18, C19).
package vcodec

import (
	"flag"
	"fmt"
	"os"
	"time"

	"github.com/quickfixgo/quickfix"

	"verifharness/tr"
)

// civil turns seconds on the civil timeline (0 = base Sunday 00:00:00) into an instant of the zone;
// ok is false when that civil time does not exist or is ambiguous in the zone.
func civil(base time.Time, loc *time.Location, t int) (time.Time, bool) {
	day := t / 86400
	sec := t % 86400
	if sec < 0 {
		sec += 86400
		day--
	}
	h, m, s := sec/3600, (sec%3600)/60, sec%60
	tt := time.Date(base.Year(), base.Month(), base.Day()+day, h, m, s, 0, loc)
	want := time.Date(base.Year(), base.Month(), base.Day()+day, h, m, s, 0, time.UTC)
	hh, mm, ss := tt.Clock()
	if hh != h || mm != m || ss != s || tt.Day() != want.Day() || tt.Month() != want.Month() {
		return tt, false // skipped hour
	}
	for _, d := range []time.Duration{-time.Hour, -30 * time.Minute, 30 * time.Minute, time.Hour} {
		o := tt.Add(d).In(loc)
		h2, m2, s2 := o.Clock()
		if h2 == h && m2 == m && s2 == s && o.Day() == tt.Day() {
			return tt, false // repeated hour
		}
	}
	return tt, true
}

// ScheduleMain: vh schedule -cases in.ndjson -out trace.ndjson
// case: {cfg:{kind,s,e,days,sd,ed}, zone, base:"2006-01-02", t1, t2s:[...]}
func ScheduleMain(args []string) int {
	fs := flag.NewFlagSet("schedule", flag.ExitOnError)
	in := fs.String("cases", "", "cases ndjson")
	out := fs.String("out", "", "trace ndjson")
	fs.Parse(args)
	w, err := tr.NewWriter(*out)
	if err != nil {
		fmt.Fprintln(os.Stderr, err)
		return 2
	}
	locs := map[string]*time.Location{}
	err = tr.ReadLines(*in, func(c tr.M) error {
		zone := tr.Str(c, "zone")
		loc, ok := locs[zone]
		if !ok {
			var e error
			if zone == "fixed-1" {
				loc = time.FixedZone("fixed-1", -3600)
			} else if loc, e = time.LoadLocation(zone); e != nil {
				return e
			}
			locs[zone] = loc
		}
		base, e := time.ParseInLocation("2006-01-02", tr.Str(c, "base"), loc)
		if e != nil {
			return e
		}
		if base.Weekday() != time.Sunday {
			return fmt.Errorf("base %v is not a Sunday", base)
		}
		cfg := tr.Map(c, "cfg")
		s, en := tr.Int(cfg, "s"), tr.Int(cfg, "e")
		var r *quickfix.VerifTimeRange
		if tr.Str(cfg, "kind") == "daily" {
			var days []time.Weekday
			for _, d := range tr.List(cfg, "days") {
				days = append(days, time.Weekday(int(d.(float64))))
			}
			r, e = quickfix.VerifNewTimeRange(s/3600, s%3600/60, s%60, en/3600, en%3600/60, en%60, days, loc)
		} else {
			r, e = quickfix.VerifNewWeekRange(s/3600, s%3600/60, s%60, en/3600, en%3600/60, en%60,
				time.Weekday(tr.Int(cfg, "sd")), time.Weekday(tr.Int(cfg, "ed")), loc)
		}
		if e != nil {
			return e
		}
		t1 := tr.Int(c, "t1")
		x1, ok1 := civil(base, loc, t1)
		if !ok1 {
			return nil // this civil instant does not exist / is ambiguous in the zone: unspecified
		}
		row := tr.M{"cfg": cfg, "zone": zone, "t1": t1, "in1": r.IsInRange(x1)}
		t2s := []interface{}{}
		in2 := []interface{}{}
		same := []interface{}{}
		for _, v := range tr.List(c, "t2s") {
			t2 := int(v.(float64))
			x2, ok2 := civil(base, loc, t2)
			if !ok2 {
				continue
			}
			t2s = append(t2s, t2)
			in2 = append(in2, r.IsInRange(x2))
			same = append(same, r.IsInSameRange(x1, x2))
		}
		row["t2s"], row["in2"], row["same"] = t2s, in2, same
		w.Put(row)
		return nil
	})
	if err != nil {
		fmt.Fprintln(os.Stderr, "schedule:", err)
		w.Close()
		return 2
	}
	if err := w.Close(); err != nil {
		return 2
	}
	return 0
}
