package vcodec

import (
	"flag"
	"fmt"
	"math/big"
	"os"
	"strconv"
	"strings"
	"time"

	"github.com/quickfixgo/quickfix"
	"github.com/shopspring/decimal"

	"verifharness/tr"
)

func codes(v interface{}) []byte {
	var out []byte
	for _, x := range v.([]interface{}) {
		out = append(out, byte(int(x.(float64))))
	}
	return out
}

func toCodes(b []byte) []int {
	out := make([]int, len(b))
	for i, c := range b {
		out[i] = int(c)
	}
	return out
}

// canonDecimal turns a float64 into <<negative, unscaled, scale>> of its shortest decimal text.
func canonDecimal(f float64) []interface{} {
	s := strconv.FormatFloat(f, 'f', -1, 64)
	neg := strings.HasPrefix(s, "-")
	s = strings.TrimPrefix(s, "-")
	scale := 0
	if i := strings.IndexByte(s, '.'); i >= 0 {
		scale = len(s) - i - 1
		s = s[:i] + s[i+1:]
	}
	u := new(big.Int)
	u.SetString(s, 10)
	for scale > 0 && new(big.Int).Mod(u, big.NewInt(10)).Sign() == 0 {
		u.Div(u, big.NewInt(10))
		scale--
	}
	if u.Sign() == 0 {
		neg = false
	}
	if !u.IsInt64() {
		return []interface{}{neg, -1, scale}
	}
	return []interface{}{neg, u.Int64(), scale}
}

func tsFields(t time.Time) tr.M {
	t = t.UTC()
	return tr.M{"y": t.Year(), "mo": int(t.Month()), "d": t.Day(), "h": t.Hour(), "mi": t.Minute(), "s": t.Second(), "ns": t.Nanosecond()}
}

func precOf(p int) quickfix.TimestampPrecision {
	switch p {
	case 0:
		return quickfix.Seconds
	case 6:
		return quickfix.Micros
	case 9:
		return quickfix.Nanos
	}
	return quickfix.Millis
}

// ValuesMain: vh values -cases in.ndjson -out trace.ndjson
// read case : {op:"read", ty, t:[codes]}                 -> {ok, iv | fv | bv | ts}
// write case: {op:"write", ty, iv | bv | ts+prec | f (text of a float) | dec+scale | raw:[codes]} -> {t:[codes], back...}
func ValuesMain(args []string) int {
	fs := flag.NewFlagSet("values", flag.ExitOnError)
	in := fs.String("cases", "", "cases ndjson")
	out := fs.String("out", "", "trace ndjson")
	fs.Parse(args)
	w, err := tr.NewWriter(*out)
	if err != nil {
		fmt.Fprintln(os.Stderr, err)
		return 2
	}
	err = tr.ReadLines(*in, func(c tr.M) error {
		row := tr.M{}
		for k, v := range c {
			row[k] = v
		}
		func() {
			defer func() {
				if r := recover(); r != nil {
					row["panic"] = fmt.Sprintf("%v", r)
				}
			}()
			ty := tr.Str(c, "ty")
			if tr.Str(c, "op") == "read" {
				text := codes(c["t"])
				switch ty {
				case "int":
					v := quickfix.FIXInt(-77) // a receiver that is not fresh
					e := v.Read(text)
					row["ok"] = e == nil
					row["iv"] = int(v)
					row["wb"] = toCodes(v.Write())
				case "float":
					var v quickfix.FIXFloat
					e := v.Read(text)
					row["ok"] = e == nil
					row["wb"] = []int{}
					if e == nil {
						row["fv"] = canonDecimal(float64(v))
					} else {
						row["fv"] = []interface{}{false, 0, 0}
					}
				case "bool":
					v := quickfix.FIXBoolean(len(text)%2 == 0)
					e := v.Read(text)
					row["ok"] = e == nil
					row["bv"] = bool(v)
					row["wb"] = toCodes(v.Write())
				case "ts":
					// a receiver that already holds a stamp of another precision
					var v quickfix.FIXUTCTimestamp
					if len(text)%2 == 0 {
						_ = v.Read([]byte("19990101-01:01:01"))
					} else {
						_ = v.Read([]byte("19990101-01:01:01.123456789"))
					}
					e := v.Read(text)
					row["ok"] = e == nil
					row["wb"] = toCodes(v.Write())
					if e == nil {
						row["ts"] = tsFields(v.Time)
					} else {
						row["ts"] = tr.M{"y": 0, "mo": 0, "d": 0, "h": 0, "mi": 0, "s": 0, "ns": 0}
					}
				}
				return
			}
			switch ty {
			case "int":
				v := quickfix.FIXInt(tr.Int(c, "iv"))
				b := v.Write()
				var back quickfix.FIXInt
				e := back.Read(b)
				row["t"], row["ok"], row["back"] = toCodes(b), e == nil, int(back)
			case "bool":
				v := quickfix.FIXBoolean(tr.Bool(c, "bv"))
				b := v.Write()
				var back quickfix.FIXBoolean
				e := back.Read(b)
				row["t"], row["ok"], row["back"] = toCodes(b), e == nil, bool(back)
			case "ts":
				f := tr.Map(c, "ts")
				tm := time.Date(tr.Int(f, "y"), time.Month(tr.Int(f, "mo")), tr.Int(f, "d"), tr.Int(f, "h"), tr.Int(f, "mi"), tr.Int(f, "s"), tr.Int(f, "ns"), time.UTC)
				v := quickfix.FIXUTCTimestamp{Time: tm, Precision: precOf(tr.Int(c, "prec"))}
				b := v.Write()
				var back quickfix.FIXUTCTimestamp
				e := back.Read(b)
				row["t"], row["ok"] = toCodes(b), e == nil
				if e == nil {
					row["back"] = tsFields(back.Time)
				} else {
					row["back"] = tr.M{"y": 0, "mo": 0, "d": 0, "h": 0, "mi": 0, "s": 0, "ns": 0}
				}
			case "float":
				f, _ := strconv.ParseFloat(tr.Str(c, "f"), 64)
				v := quickfix.FIXFloat(f)
				b := v.Write()
				var back quickfix.FIXFloat
				e := back.Read(b)
				row["t"], row["ok"], row["same"] = toCodes(b), e == nil, float64(back) == f
				row["fv"] = canonDecimal(f)
			case "dec":
				d, _ := decimal.NewFromString(tr.Str(c, "dec"))
				v := quickfix.FIXDecimal{Decimal: d, Scale: int32(tr.Int(c, "scale"))}
				b := v.Write()
				var back quickfix.FIXDecimal
				e := back.Read(b)
				row["t"], row["ok"] = toCodes(b), e == nil
				row["same"] = e == nil && back.Decimal.Equal(d.Truncate(int32(tr.Int(c, "scale"))))
				row["exact"] = d.Equal(d.Truncate(int32(tr.Int(c, "scale"))))
			case "str":
				raw := codes(c["raw"])
				v := quickfix.FIXString(raw)
				var back quickfix.FIXString
				e := back.Read(v.Write())
				bv := quickfix.FIXBytes(raw)
				var bb quickfix.FIXBytes
				e2 := bb.Read(bv.Write())
				row["t"] = toCodes(v.Write())
				row["ok"] = e == nil && e2 == nil
				row["same"] = string(back) == string(raw) && string(bb) == string(raw)
			}
		}()
		w.Put(row)
		return nil
	})
	if err != nil {
		fmt.Fprintln(os.Stderr, "values:", err)
		w.Close()
		return 2
	}
	w.Close()
	return 0
}
