package vcodec

import (
	"bytes"
	"encoding/json"
	"flag"
	"fmt"
	"io"
	"math/rand"
	"os"
	"strings"

	"github.com/quickfixgo/quickfix"

	"verifharness/tr"
)

// chunkReader hands out the stream in the given chunk sizes (the last size repeats).
type chunkReader struct {
	data  []byte
	sizes []int
	i     int
	// eofWithData: the read that delivers the last bytes also reports io.EOF (an io.Reader may do that)
	eofWithData bool
}

func (c *chunkReader) Read(p []byte) (int, error) {
	if len(c.data) == 0 {
		return 0, io.EOF
	}
	n := 1
	if len(c.sizes) > 0 {
		k := c.i
		if k >= len(c.sizes) {
			k = len(c.sizes) - 1
		}
		n = c.sizes[k]
		c.i++
	}
	if n < 1 {
		n = 1
	}
	if n > len(p) {
		n = len(p)
	}
	if n > len(c.data) {
		n = len(c.data)
	}
	copy(p, c.data[:n])
	c.data = c.data[n:]
	if c.eofWithData && len(c.data) == 0 {
		return n, io.EOF
	}
	return n, nil
}

func errClass(err error) string {
	if err == nil {
		return ""
	}
	s := err.Error()
	switch {
	case err == io.EOF || strings.Contains(s, "EOF"):
		return "EOF"
	case strings.Contains(s, "No length"):
		return "NoLength"
	case strings.Contains(s, "Invalid length"):
		return "InvalidLength"
	case strings.Contains(s, "invalid format") || strings.Contains(s, "empty bytes"):
		return "BadLength"
	}
	return "other:" + s
}

type frameResult struct {
	frames [][]byte
	err    string
}

func (r frameResult) key() string {
	var sb strings.Builder
	for _, f := range r.frames {
		fmt.Fprintf(&sb, "%d:", len(f))
		sb.Write(f)
	}
	sb.WriteString("|" + r.err)
	return sb.String()
}

func frameOnce(data []byte, sizes []int, buf int, eofWithData bool) (res frameResult) {
	defer func() {
		if r := recover(); r != nil {
			res.err = fmt.Sprintf("panic:%v", r)
		}
	}()
	p := quickfix.VerifNewParser(&chunkReader{data: append([]byte(nil), data...), sizes: sizes, eofWithData: eofWithData}, buf)
	for n := 0; n < 10000; n++ {
		b, err := p.ReadMessage()
		if err != nil {
			res.err = errClass(err)
			return
		}
		res.frames = append(res.frames, append([]byte(nil), b...))
	}
	res.err = "hang"
	return
}

func ints(b []byte) []int {
	out := make([]int, len(b))
	for i, c := range b {
		out[i] = int(c)
	}
	return out
}

// FramerMain: vh framer -cases in.ndjson -out trace.ndjson -seed N -pairs K
// case: {id, stream:[ints], msgs?:[[ints]]}
func FramerMain(args []string) int {
	fs := flag.NewFlagSet("framer", flag.ExitOnError)
	in := fs.String("cases", "", "cases ndjson")
	out := fs.String("out", "", "trace ndjson")
	seed := fs.Int64("seed", 1, "seed")
	pairs := fs.Int("pairs", 20, "random two-cut chunkings per stream")
	fs.Parse(args)
	w, err := tr.NewWriter(*out)
	if err != nil {
		fmt.Fprintln(os.Stderr, err)
		return 2
	}
	rng := rand.New(rand.NewSource(*seed))
	runs := 0
	err = tr.ReadLines(*in, func(c tr.M) error {
		var data []byte
		for _, v := range tr.List(c, "stream") {
			data = append(data, byte(int(v.(float64))))
		}
		n := len(data)
		var scheds [][]int
		scheds = append(scheds, []int{n + 10}, []int{1})
		for _, k := range []int{2, 3, 5, 7, 15, 16, 17, 31, 32, 33, 63, 64, 65, 4095, 4096, 4097} {
			scheds = append(scheds, []int{k})
		}
		if n <= 400 {
			for cut := 1; cut < n; cut++ {
				scheds = append(scheds, []int{cut, n})
			}
		} else {
			for i := 0; i < 60; i++ {
				scheds = append(scheds, []int{1 + rng.Intn(n-1), n})
			}
		}
		for i := 0; i < *pairs && n > 2; i++ {
			a := 1 + rng.Intn(n-1)
			b := 1 + rng.Intn(n-1)
			scheds = append(scheds, []int{a, b, n})
		}
		for i := 0; i < 5; i++ {
			var s []int
			for j := 0; j < 40; j++ {
				s = append(s, 1+rng.Intn(9))
			}
			scheds = append(scheds, s)
		}
		distinct := map[string]int{}
		var results []interface{}
		for _, buf := range []int{0, 16, 32, 64} {
			for _, s := range scheds {
				for _, ewd := range []bool{false, true} {
					r := frameOnce(data, s, buf, ewd)
					runs++
					k := r.key()
					if _, ok := distinct[k]; !ok {
						distinct[k] = len(results)
						fr := []interface{}{}
						for _, f := range r.frames {
							fr = append(fr, ints(f))
						}
						wit := s
						if len(wit) > 6 {
							wit = wit[:6]
						}
						results = append(results, tr.M{"frames": fr, "err": r.err, "witness": tr.M{"buf": buf, "sizes": wit, "eofWithData": ewd}})
					}
				}
			}
		}
		row := tr.M{"id": c["id"], "stream": c["stream"], "results": results}
		if m, ok := c["msgs"]; ok {
			row["msgs"] = m
		}
		w.Put(row)
		return nil
	})
	if err != nil {
		fmt.Fprintln(os.Stderr, "framer:", err)
		w.Close()
		return 2
	}
	w.Close()
	b, _ := json.Marshal(tr.M{"runs": runs})
	fmt.Println(string(bytes.TrimSpace(b)))
	return 0
}
