package vcodec

import (
	"bytes"
	"flag"
	"fmt"
	"os"
	"strings"

	"github.com/quickfixgo/quickfix"
	"github.com/quickfixgo/quickfix/datadictionary"

	"verifharness/tr"
)

// ValidateMain: vh validate -cases in.ndjson -out trace.ndjson -repo /repo
// case: {bytes, spec: "FIX44" | "FIXT:FIX50SP2" | path, settings: {outOfOrder, haveValues, rejectInvalid, allowUnknown, checkUserDefined}, ...}
func ValidateMain(args []string) int {
	fs := flag.NewFlagSet("validate", flag.ExitOnError)
	in := fs.String("cases", "", "cases ndjson")
	out := fs.String("out", "", "trace ndjson")
	repo := fs.String("repo", "/repo", "repository root")
	fs.Parse(args)
	w, err := tr.NewWriter(*out)
	if err != nil {
		return 2
	}
	dds := map[string]*datadictionary.DataDictionary{}
	load := func(name string) (*datadictionary.DataDictionary, error) {
		if d, ok := dds[name]; ok {
			return d, nil
		}
		p := name
		if !strings.Contains(name, "/") {
			p = *repo + "/spec/" + name + ".xml"
		}
		d, e := datadictionary.Parse(p)
		if e == nil {
			dds[name] = d
		}
		return d, e
	}
	err = tr.ReadLines(*in, func(c tr.M) error {
		row := tr.M{}
		for k, v := range c {
			if k != "bytes" {
				row[k] = v
			}
		}
		obs := tr.M{"parsed": false, "ok": false, "reason": -1, "tag": 0, "biz": false}
		res := guarded(10e9, func() {
			spec := tr.Str(c, "spec")
			var tdd, add *datadictionary.DataDictionary
			var e error
			if strings.HasPrefix(spec, "FIXT:") {
				if tdd, e = load("FIXT11"); e != nil {
					panic(e)
				}
				if add, e = load(strings.TrimPrefix(spec, "FIXT:")); e != nil {
					panic(e)
				}
			} else if add, e = load(spec); e != nil {
				panic(e)
			}
			st := tr.Map(c, "settings")
			vs := quickfix.ValidatorSettings{CheckFieldsOutOfOrder: tr.Bool(st, "outOfOrder"), CheckFieldsHaveValues: tr.Bool(st, "haveValues"),
				RejectInvalidMessage: tr.Bool(st, "rejectInvalid"), AllowUnknownMessageFields: tr.Bool(st, "allowUnknown"),
				CheckUserDefinedFields: tr.Bool(st, "checkUserDefined")}
			m := quickfix.NewMessage()
			if e := quickfix.ParseMessageWithDataDictionary(m, bytes.NewBuffer(codes(c["bytes"])), tdd, add); e != nil {
				obs["parseErr"] = e.Error()
				return
			}
			obs["parsed"] = true
			rej := quickfix.NewValidator(vs, add, tdd).Validate(m)
			if rej == nil {
				obs["ok"] = true
				return
			}
			obs["reason"] = rej.RejectReason()
			obs["biz"] = rej.IsBusinessReject()
			obs["text"] = rej.Error()
			if t := rej.RefTagID(); t != nil {
				obs["tag"] = int(*t)
			}
		})
		if res != "" {
			row["panic"] = res
		}
		row["obs"] = obs
		w.Put(row)
		return nil
	})
	if err != nil {
		fmt.Fprintln(os.Stderr, "validate:", err)
		w.Close()
		return 2
	}
	w.Close()
	return 0
}
