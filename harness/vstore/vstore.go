// Package vstore executes Store.tla scripts against the real MessageStore implementations
// (memory, file with and without sync, SQL on sqlite3) and records every return value.
package vstore

import (
	"database/sql"
	"encoding/hex"
	"errors"
	"flag"
	"fmt"
	"math/rand"
	"os"
	"path/filepath"
	"strings"

	_ "github.com/mattn/go-sqlite3"
	"github.com/quickfixgo/quickfix"
	"github.com/quickfixgo/quickfix/config"
	filestore "github.com/quickfixgo/quickfix/store/file"
	sqlstore "github.com/quickfixgo/quickfix/store/sql"

	"verifharness/tr"
)

// Backend creates stores for session ids sharing one backing medium.
type Backend struct {
	Kind    string
	Dir     string
	factory quickfix.MessageStoreFactory
}

func SID(name string) quickfix.SessionID {
	return quickfix.SessionID{BeginString: "FIX.4.2", SenderCompID: strings.ToUpper(name), TargetCompID: "PEER"}
}

// NewBackend prepares a fresh backing medium of the given kind under dir for the given session ids.
func NewBackend(kind, dir string, sids []quickfix.SessionID, repo string) (*Backend, error) {
	b := &Backend{Kind: kind, Dir: dir}
	switch kind {
	case "memory":
		b.factory = quickfix.NewMemoryStoreFactory()
	case "file", "filenosync":
		st := quickfix.NewSettings()
		st.GlobalSettings().Set(config.FileStorePath, dir)
		if kind == "filenosync" {
			st.GlobalSettings().Set(config.FileStoreSync, "N")
		}
		for _, id := range sids {
			ss := quickfix.NewSessionSettings()
			ss.Set(config.BeginString, id.BeginString)
			ss.Set(config.SenderCompID, id.SenderCompID)
			ss.Set(config.TargetCompID, id.TargetCompID)
			if id.Qualifier != "" {
				ss.Set(config.SessionQualifier, id.Qualifier)
			}
			if _, err := st.AddSession(ss); err != nil {
				return nil, err
			}
		}
		b.factory = filestore.NewStoreFactory(st)
	case "sqlite", "sqlitebusy":
		// "sqlitebusy" (concurrent senders, C02) waits for the lock; "sqlite" fails fast, so that a connection
		// left holding a lock shows as an error of the next write instead of a stall
		busy := "300"
		if kind == "sqlitebusy" {
			busy = "20000"
		}
		dbp := filepath.Join(dir, "store.db")
		db, err := sql.Open("sqlite3", dbp)
		if err != nil {
			return nil, err
		}
		for _, f := range []string{"messages_table.sql", "sessions_table.sql"} {
			ddl, err := os.ReadFile(filepath.Join(repo, "_sql", "sqlite3", f))
			if err != nil {
				return nil, err
			}
			if _, err := db.Exec(string(ddl)); err != nil {
				return nil, err
			}
		}
		db.Close()
		st := quickfix.NewSettings()
		st.GlobalSettings().Set(config.SQLStoreDriver, "sqlite3")
		st.GlobalSettings().Set(config.SQLStoreDataSourceName, "file:"+dbp+"?_busy_timeout="+busy)
		for _, id := range sids {
			ss := quickfix.NewSessionSettings()
			ss.Set(config.BeginString, id.BeginString)
			ss.Set(config.SenderCompID, id.SenderCompID)
			ss.Set(config.TargetCompID, id.TargetCompID)
			if id.Qualifier != "" {
				ss.Set(config.SessionQualifier, id.Qualifier)
			}
			if _, err := st.AddSession(ss); err != nil {
				return nil, err
			}
		}
		b.factory = sqlstore.NewStoreFactory(st)
	default:
		return nil, fmt.Errorf("unknown store kind %q", kind)
	}
	return b, nil
}

func (b *Backend) Factory() quickfix.MessageStoreFactory { return b.factory }

// Bodies maps abstract body ids to concrete bytes (and back).
type Bodies struct {
	fwd map[string][]byte
	rev map[string]string
}

func NewBodies(seed int64) *Bodies {
	r := rand.New(rand.NewSource(seed))
	b := &Bodies{fwd: map[string][]byte{}, rev: map[string]string{}}
	specials := [][]byte{
		[]byte("8=FIX.4.2\x019=5\x0135=0\x0110=161\x01"),
		[]byte("a,b,c\n1,2,3\n"),
		[]byte("x"),
		[]byte("\x01\x01=\x01"),
		[]byte(strings.Repeat("L", 70000)),
		[]byte("caf\xc3\xa9 \xff\xfe high bytes"),
		[]byte("12,34,56"),
		[]byte("tab\tcr\rnl\nend"),
	}
	r.Shuffle(len(specials), func(i, j int) { specials[i], specials[j] = specials[j], specials[i] })
	for i := 1; i <= 6; i++ {
		id := fmt.Sprintf("m%d", i)
		v := append([]byte(nil), specials[i-1]...)
		// make every body distinct even if the special payload repeats
		v = append(v, []byte(fmt.Sprintf("#%s#%d", id, r.Intn(1000000)))...)
		b.fwd[id] = v
		b.rev[string(v)] = id
	}
	return b
}

func (b *Bodies) Bytes(id string) []byte { return b.fwd[id] }
func (b *Bodies) ID(v []byte) string {
	if id, ok := b.rev[string(v)]; ok {
		return id
	}
	n := len(v)
	if n > 12 {
		n = 12
	}
	return fmt.Sprintf("?%d:%s", len(v), hex.EncodeToString(v[:n]))
}

type sidState struct {
	store quickfix.MessageStore
	cts   []int64 // distinct creation times seen, in order
}

var errAbort = errors.New("verif: callback abort")

// Main: vh store -kind K -scripts in.ndjson -out trace.ndjson
func Main(args []string) int {
	fs := flag.NewFlagSet("store", flag.ExitOnError)
	kind := fs.String("kind", "memory", "memory|file|filenosync|sqlite")
	in := fs.String("scripts", "", "scripts ndjson")
	out := fs.String("out", "", "trace ndjson")
	repo := fs.String("repo", "/repo", "repository root (sqlite DDL)")
	seed := fs.Int64("seed", 1, "seed for body concretisation")
	fs.Parse(args)

	w, err := tr.NewWriter(*out)
	if err != nil {
		fmt.Fprintln(os.Stderr, err)
		return 2
	}
	bodies := NewBodies(*seed)
	base, err := os.MkdirTemp("", "vstore-")
	if err != nil {
		fmt.Fprintln(os.Stderr, err)
		return 2
	}
	defer os.RemoveAll(base)
	n := 0
	err = tr.ReadLines(*in, func(sc tr.M) error {
		n++
		dir := filepath.Join(base, fmt.Sprintf("s%d", n))
		if err := os.MkdirAll(dir, 0o755); err != nil {
			return err
		}
		defer os.RemoveAll(dir)
		return runScript(*kind, dir, *repo, sc, bodies, w)
	})
	if err != nil {
		fmt.Fprintln(os.Stderr, "vstore:", err)
		w.Close()
		return 2
	}
	if err := w.Close(); err != nil {
		fmt.Fprintln(os.Stderr, err)
		return 2
	}
	return 0
}

func runScript(kind, dir, repo string, sc tr.M, bodies *Bodies, w *tr.Writer) error {
	steps := tr.List(sc, "steps")
	names := map[string]bool{}
	var ids []quickfix.SessionID
	var order []string
	for _, s := range steps {
		nm := tr.Str(s.(map[string]interface{}), "sid")
		if !names[nm] {
			names[nm] = true
			order = append(order, nm)
			ids = append(ids, SID(nm))
		}
	}
	be, err := NewBackend(kind, dir, ids, repo)
	if err != nil {
		return err
	}
	sts := map[string]*sidState{}
	for _, nm := range order {
		st, err := be.factory.Create(SID(nm))
		if err != nil {
			return fmt.Errorf("create %s: %w", nm, err)
		}
		s := &sidState{store: st}
		s.cts = append(s.cts, st.CreationTime().UnixNano())
		sts[nm] = s
	}
	defer func() {
		for _, s := range sts {
			if s.store != nil {
				s.store.Close()
			}
		}
	}()
	w.Put(tr.M{"ev": tr.M{"k": "TraceReset"}, "tr": sc["id"]})
	for i, sraw := range steps {
		step := sraw.(map[string]interface{})
		nm := tr.Str(step, "sid")
		ev := tr.Map(step, "ev")
		s := sts[nm]
		seen := []string{}
		var opErr error
		switch tr.Str(ev, "k") {
		case "SetSender":
			opErr = s.store.SetNextSenderMsgSeqNum(tr.Int(ev, "v"))
		case "SetTarget":
			opErr = s.store.SetNextTargetMsgSeqNum(tr.Int(ev, "v"))
		case "IncrSender":
			opErr = s.store.IncrNextSenderMsgSeqNum()
		case "IncrTarget":
			opErr = s.store.IncrNextTargetMsgSeqNum()
		case "Save":
			opErr = s.store.SaveMessage(tr.Int(ev, "n"), bodies.Bytes(tr.Str(ev, "m")))
		case "SaveIncr":
			opErr = s.store.SaveMessageAndIncrNextSenderMsgSeqNum(tr.Int(ev, "n"), bodies.Bytes(tr.Str(ev, "m")))
		case "Get":
			var msgs [][]byte
			msgs, opErr = s.store.GetMessages(tr.Int(ev, "b"), tr.Int(ev, "e"))
			for _, m := range msgs {
				seen = append(seen, bodies.ID(m))
			}
		case "Iter":
			a := tr.Int(ev, "a")
			calls := 0
			opErr = s.store.IterateMessages(tr.Int(ev, "b"), tr.Int(ev, "e"), func(m []byte) error {
				calls++
				seen = append(seen, bodies.ID(m))
				if calls > a {
					return errAbort
				}
				return nil
			})
			if opErr != nil && !errors.Is(opErr, errAbort) && !strings.Contains(opErr.Error(), errAbort.Error()) {
				// a failure other than the callback's own error
				seen = append(seen, "!"+opErr.Error())
			}
		case "Refresh":
			opErr = s.store.Refresh()
		case "Reset":
			opErr = s.store.Reset()
		case "Reopen":
			if kind != "memory" {
				if opErr = s.store.Close(); opErr == nil {
					var st quickfix.MessageStore
					st, opErr = be.factory.Create(SID(nm))
					if opErr == nil {
						s.store = st
					}
				}
			}
		default:
			return fmt.Errorf("unknown op %v", ev)
		}
		ct := s.store.CreationTime().UnixNano()
		ord := -1
		for j, c := range s.cts {
			if c == ct {
				ord = j
			}
		}
		if ord < 0 {
			if ct > s.cts[len(s.cts)-1] {
				s.cts = append(s.cts, ct)
				ord = len(s.cts) - 1
			} else {
				ord = -1 // a new creation time that is not later than the previous one
			}
		}
		row := tr.M{"tr": sc["id"], "i": i, "sid": nm, "ev": ev,
			"ret":  tr.M{"seen": seen, "err": opErr != nil},
			"post": tr.M{"ns": s.store.NextSenderMsgSeqNum(), "nt": s.store.NextTargetMsgSeqNum(), "ct": ord}}
		if opErr != nil {
			row["errtext"] = opErr.Error()
		}
		w.Put(row)
	}
	return nil
}
