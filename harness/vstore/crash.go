package vstore

import (
	"database/sql"
	"database/sql/driver"
	"errors"
	"flag"
	"fmt"
	"os"
	"path/filepath"
	"sort"
	"strings"
	"sync"

	sqlite3 "github.com/mattn/go-sqlite3"
	"github.com/quickfixgo/quickfix"
	"github.com/quickfixgo/quickfix/config"
	filestore "github.com/quickfixgo/quickfix/store/file"
	sqlstore "github.com/quickfixgo/quickfix/store/sql"

	"verifharness/tr"
)

type snapshot struct {
	point string
	files map[string][]byte // by suffix: body header session senderseqnums targetseqnums; absent = no file
}

var suffixes = []string{"body", "header", "session", "senderseqnums", "targetseqnums"}

func snap(dir, point string) snapshot {
	s := snapshot{point: point, files: map[string][]byte{}}
	ents, _ := os.ReadDir(dir)
	for _, e := range ents {
		for _, suf := range suffixes {
			if strings.HasSuffix(e.Name(), "."+suf) {
				b, err := os.ReadFile(filepath.Join(dir, e.Name()))
				if err == nil {
					s.files[suf] = b
				}
			}
		}
	}
	return s
}

func (s snapshot) clone() snapshot {
	c := snapshot{point: s.point, files: map[string][]byte{}}
	for k, v := range s.files {
		c.files[k] = append([]byte(nil), v...)
	}
	return c
}

func prefixOf(id quickfix.SessionID) string {
	return fmt.Sprintf("%s-%s-%s", id.BeginString, id.SenderCompID, id.TargetCompID)
}

func writeImage(dir string, id quickfix.SessionID, img snapshot) error {
	for suf, b := range img.files {
		if err := os.WriteFile(filepath.Join(dir, prefixOf(id)+"."+suf), b, 0o660); err != nil {
			return err
		}
	}
	return nil
}

// torn returns the file content when the write that turned `before` into `after` is cut after k bytes.
func torn(before, after []byte, k int) ([]byte, int) {
	o := 0
	for o < len(before) && o < len(after) && before[o] == after[o] {
		o++
	}
	e := len(after)
	if len(before) == len(after) { // in-place rewrite: the written region ends at the last differing byte
		for e > o && before[e-1] == after[e-1] {
			e--
		}
	}
	d := after[o:e]
	if k > len(d) {
		k = len(d)
	}
	out := append([]byte(nil), before[:o]...)
	out = append(out, d[:k]...)
	if o+k < len(before) {
		out = append(out, before[o+k:]...)
	}
	return out, len(d)
}

func applyOp(st quickfix.MessageStore, op tr.M, bodies *Bodies) error {
	switch tr.Str(op, "k") {
	case "SetSender":
		return st.SetNextSenderMsgSeqNum(tr.Int(op, "v"))
	case "SetTarget":
		return st.SetNextTargetMsgSeqNum(tr.Int(op, "v"))
	case "IncrSender":
		return st.IncrNextSenderMsgSeqNum()
	case "IncrTarget":
		return st.IncrNextTargetMsgSeqNum()
	case "Save":
		return st.SaveMessage(tr.Int(op, "n"), bodies.Bytes(tr.Str(op, "m")))
	case "SaveIncr":
		return st.SaveMessageAndIncrNextSenderMsgSeqNum(tr.Int(op, "n"), bodies.Bytes(tr.Str(op, "m")))
	case "Reset":
		return st.Reset()
	case "Refresh":
		return st.Refresh()
	}
	return fmt.Errorf("unknown op %v", op)
}

func fileFactory(dir string, id quickfix.SessionID) quickfix.MessageStoreFactory {
	st := quickfix.NewSettings()
	st.GlobalSettings().Set(config.FileStorePath, dir)
	ss := quickfix.NewSessionSettings()
	ss.Set(config.BeginString, id.BeginString)
	ss.Set(config.SenderCompID, id.SenderCompID)
	ss.Set(config.TargetCompID, id.TargetCompID)
	st.AddSession(ss)
	return filestore.NewStoreFactory(st)
}

// interrogate reopens the image with the real factory and reads everything back.
func interrogate(dir string, id quickfix.SessionID, bodies *Bodies, maxN int, further tr.M) tr.M {
	obs := tr.M{"reopen": false, "ns": 0, "nt": 0, "per": []interface{}{}, "whole": tr.M{"ok": false, "ids": []interface{}{}},
		"further": tr.M{"done": false, "err": false, "n": 0, "ids": []interface{}{}, "ok": false, "ns": 0}}
	defer func() {
		if r := recover(); r != nil {
			obs["panic"] = fmt.Sprintf("%v", r)
		}
	}()
	st, err := fileFactory(dir, id).Create(id)
	if err != nil {
		obs["reopenErr"] = err.Error()
		return obs
	}
	defer st.Close()
	obs["reopen"] = true
	obs["ns"], obs["nt"] = st.NextSenderMsgSeqNum(), st.NextTargetMsgSeqNum()
	read := func(b, e int) tr.M {
		msgs, err := st.GetMessages(b, e)
		ids := []interface{}{}
		for _, m := range msgs {
			ids = append(ids, bodies.ID(m))
		}
		r := tr.M{"ok": err == nil, "ids": ids}
		if err != nil {
			r["errtext"] = err.Error()
		}
		return r
	}
	per := []interface{}{}
	for n := 1; n <= maxN; n++ {
		r := read(n, n)
		r["n"] = n
		per = append(per, r)
	}
	obs["per"] = per
	obs["whole"] = read(1, maxN)
	if further != nil {
		n := st.NextSenderMsgSeqNum()
		e := st.SaveMessageAndIncrNextSenderMsgSeqNum(n, bodies.Bytes(tr.Str(further, "m")))
		r := read(n, n)
		obs["further"] = tr.M{"done": true, "err": e != nil, "n": n, "ids": r["ids"], "ok": r["ok"], "ns": st.NextSenderMsgSeqNum()}
	}
	return obs
}

// CrashMain: vh crash -cases in.ndjson -out trace.ndjson [-allcuts]
// case: {id, hist:[ops], op: interrupted op, maxn}
func CrashMain(args []string) int {
	fs := flag.NewFlagSet("crash", flag.ExitOnError)
	in := fs.String("cases", "", "cases ndjson")
	out := fs.String("out", "", "trace ndjson")
	allcuts := fs.Bool("allcuts", false, "cut the in-flight write at every byte (default: class representatives)")
	seed := fs.Int64("seed", 1, "seed for body bytes")
	audit := fs.Bool("audit", false, "run every history under marker lines on stderr (for the system-call audit of syncs), no images")
	fs.Parse(args)
	w, err := tr.NewWriter(*out)
	if err != nil {
		fmt.Fprintln(os.Stderr, err)
		return 2
	}
	bodies := NewBodies(*seed)
	// short bodies keep the number of cut positions manageable with -allcuts
	for i := 1; i <= 6; i++ {
		id := fmt.Sprintf("m%d", i)
		v := []byte(fmt.Sprintf("8=FIX.4.2\x019=9\x0135=%d\x0110=000\x01#%s", i, id))
		delete(bodies.rev, string(bodies.fwd[id]))
		bodies.fwd[id] = v
		bodies.rev[string(v)] = id
	}
	base, _ := os.MkdirTemp("", "vcrash-")
	defer os.RemoveAll(base)
	id := SID("s1")
	nimg := 0
	var mu sync.Mutex
	err = tr.ReadLines(*in, func(c tr.M) error {
		dir := filepath.Join(base, "live")
		os.RemoveAll(dir)
		os.MkdirAll(dir, 0o755)
		st, err := fileFactory(dir, id).Create(id)
		if err != nil {
			return err
		}
		if *audit {
			// every operation between two marker lines; the check runs this under strace and looks at
			// the writes and syncs in between
			ops := append(append([]interface{}{}, tr.List(c, "hist")...), c["op"])
			for i, o := range ops {
				om := o.(map[string]interface{})
				os.Stderr.WriteString(fmt.Sprintf("VMARK B %v %d %s\n", c["id"], i, tr.Str(om, "k")))
				err := applyOp(st, om, bodies)
				os.Stderr.WriteString(fmt.Sprintf("VMARK E %v %d\n", c["id"], i))
				if err != nil {
					return fmt.Errorf("audited op failed: %w", err)
				}
			}
			st.Close()
			return nil
		}
		for _, o := range tr.List(c, "hist") {
			if err := applyOp(st, o.(map[string]interface{}), bodies); err != nil {
				return fmt.Errorf("history op failed: %w", err)
			}
		}
		var snaps []snapshot
		snaps = append(snaps, snap(dir, "start"))
		filestore.VerifCrashHook = func(p string) {
			mu.Lock()
			snaps = append(snaps, snap(dir, p))
			mu.Unlock()
		}
		opErr := applyOp(st, tr.Map(c, "op"), bodies)
		filestore.VerifCrashHook = nil
		snaps = append(snaps, snap(dir, "end"))
		st.Close()
		if opErr != nil {
			return fmt.Errorf("interrupted op failed when not interrupted: %w", opErr)
		}
		maxN := tr.Int(c, "maxn")
		emit := func(img snapshot, mode, point string, cut, cutlen int, file string) {
			nimg++
			idir := filepath.Join(base, fmt.Sprintf("img%d", nimg))
			os.MkdirAll(idir, 0o755)
			writeImage(idir, id, img)
			obs := interrogate(idir, id, bodies, maxN, tr.M{"m": "m6"})
			os.RemoveAll(idir)
			cls := "whole"
			switch {
			case cutlen == 0:
				cls = "between"
			case cut == 0:
				cls = "none"
			case cut == cutlen:
				cls = "whole"
			case cut == 1:
				cls = "first-byte"
			case cut == cutlen-1:
				cls = "all-but-one"
			default:
				cls = "inside"
			}
			w.Put(tr.M{"id": c["id"], "hist": c["hist"], "op": c["op"], "mode": mode, "point": point, "cut": cut, "cutlen": cutlen,
				"cutclass": cls, "file": file, "obs": obs})
		}
		// process crash: every snapshot as it is, and every in-flight write cut
		for i := 0; i+1 < len(snaps); i++ {
			a, b := snaps[i], snaps[i+1]
			emit(b, "process", b.point, 0, 0, "")
			for _, suf := range suffixes {
				ab, okA := a.files[suf]
				bb, okB := b.files[suf]
				if !okA || !okB || string(ab) == string(bb) {
					continue
				}
				_, n := torn(ab, bb, 0)
				var cuts []int
				if *allcuts {
					for k := 1; k < n; k++ {
						cuts = append(cuts, k)
					}
				} else {
					set := map[int]bool{1: true, n / 2: true, n - 1: true}
					if suf == "senderseqnums" || suf == "targetseqnums" || suf == "header" {
						for k := 1; k < n; k++ {
							set[k] = true // short writes: all positions
						}
					}
					for k := range set {
						if k >= 1 && k < n {
							cuts = append(cuts, k)
						}
					}
					sort.Ints(cuts)
				}
				for _, k := range cuts {
					img := a.clone()
					img.files[suf], _ = torn(ab, bb, k)
					emit(img, "process", b.point, k, n, suf)
				}
			}
		}
		// power loss: only synced data survives plus any prefix of writes not yet synced
		durable := snaps[0].clone()
		pending := map[string][]byte{} // file -> content including unsynced writes
		for i := 1; i < len(snaps); i++ {
			s := snaps[i]
			for _, suf := range suffixes {
				if b, ok := s.files[suf]; ok {
					if d, okd := durable.files[suf]; !okd || string(d) != string(b) {
						pending[suf] = b
					}
				} else {
					delete(durable.files, suf) // removal: treated as durable
					delete(pending, suf)
				}
			}
			if strings.Contains(s.point, "synced") || strings.HasPrefix(s.point, "sync:") || s.point == "end" {
				for suf, b := range pending {
					durable.files[suf] = b
				}
				pending = map[string][]byte{}
				continue
			}
			if len(pending) == 0 {
				continue
			}
			// enumerate: each pending file either durable content, half of the pending write, or all of it
			var names []string
			for suf := range pending {
				names = append(names, suf)
			}
			sort.Strings(names)
			var rec func(j int, img snapshot, label string)
			rec = func(j int, img snapshot, label string) {
				if j == len(names) {
					emit(img, "power", s.point, 0, 0, label)
					return
				}
				suf := names[j]
				d := durable.files[suf]
				_, n := torn(d, pending[suf], 0)
				for _, k := range []int{0, n / 2, n} {
					im := img.clone()
					im.files[suf], _ = torn(d, pending[suf], k)
					rec(j+1, im, fmt.Sprintf("%s%s:%d/%d ", label, suf, k, n))
				}
			}
			rec(0, durable.clone(), "")
		}
		return nil
	})
	if err != nil {
		fmt.Fprintln(os.Stderr, "crash:", err)
		w.Close()
		return 2
	}
	w.Close()
	return 0
}

// ---------------------------------------------------------------- SQL statement failures

type failPlan struct {
	mu       sync.Mutex
	armed    bool
	failAt   string // "insert" | "update" | "commit"
	inTx     bool
	execInTx int
}

var sqlFail = &failPlan{}

type failDriver struct{ inner driver.Driver }

func (d failDriver) Open(name string) (driver.Conn, error) {
	c, err := d.inner.Open(name)
	if err != nil {
		return nil, err
	}
	return &failConn{c}, nil
}

type failConn struct{ driver.Conn }

func (c *failConn) Begin() (driver.Tx, error) {
	tx, err := c.Conn.Begin() //nolint
	if err != nil {
		return nil, err
	}
	sqlFail.mu.Lock()
	sqlFail.inTx, sqlFail.execInTx = true, 0
	sqlFail.mu.Unlock()
	return &failTx{tx}, nil
}

func (c *failConn) Exec(query string, args []driver.Value) (driver.Result, error) {
	sqlFail.mu.Lock()
	fail := false
	if sqlFail.armed && sqlFail.inTx {
		sqlFail.execInTx++
		if (sqlFail.failAt == "insert" && sqlFail.execInTx == 1) || (sqlFail.failAt == "update" && sqlFail.execInTx == 2) {
			fail = true
		}
	}
	sqlFail.mu.Unlock()
	if fail {
		return nil, errors.New("verif: injected statement failure")
	}
	return c.Conn.(driver.Execer).Exec(query, args) //nolint
}

func (c *failConn) Query(query string, args []driver.Value) (driver.Rows, error) {
	return c.Conn.(driver.Queryer).Query(query, args) //nolint
}

type failTx struct{ driver.Tx }

func (t *failTx) Commit() error {
	sqlFail.mu.Lock()
	fail := sqlFail.armed && sqlFail.failAt == "commit"
	sqlFail.inTx = false
	sqlFail.mu.Unlock()
	if fail {
		t.Tx.Rollback()
		return errors.New("verif: injected commit failure")
	}
	return t.Tx.Commit()
}

func (t *failTx) Rollback() error {
	sqlFail.mu.Lock()
	sqlFail.inTx = false
	sqlFail.mu.Unlock()
	return t.Tx.Rollback()
}

var registerOnce sync.Once

// SQLFailMain: vh sqlfail -out trace.ndjson -repo /repo
func SQLFailMain(args []string) int {
	fs := flag.NewFlagSet("sqlfail", flag.ExitOnError)
	out := fs.String("out", "", "trace ndjson")
	repo := fs.String("repo", "/repo", "repository root")
	fs.Parse(args)
	registerOnce.Do(func() { sql.Register("sqlite3fail", failDriver{&sqlite3.SQLiteDriver{}}) })
	w, err := tr.NewWriter(*out)
	if err != nil {
		return 2
	}
	bodies := NewBodies(1)
	base, _ := os.MkdirTemp("", "vsqlfail-")
	defer os.RemoveAll(base)
	id := SID("s1")
	n := 0
	for _, pre := range []int{0, 1, 3} {
		for _, failAt := range []string{"none", "insert", "update", "commit"} {
			n++
			dir := filepath.Join(base, fmt.Sprintf("d%d", n))
			os.MkdirAll(dir, 0o755)
			be, err := NewBackend("sqlite", dir, []quickfix.SessionID{id}, *repo)
			if err != nil {
				fmt.Fprintln(os.Stderr, err)
				return 2
			}
			_ = be
			st := quickfix.NewSettings()
			st.GlobalSettings().Set(config.SQLStoreDriver, "sqlite3fail")
			st.GlobalSettings().Set(config.SQLStoreDataSourceName, filepath.Join(dir, "store.db"))
			ss := quickfix.NewSessionSettings()
			ss.Set(config.BeginString, id.BeginString)
			ss.Set(config.SenderCompID, id.SenderCompID)
			ss.Set(config.TargetCompID, id.TargetCompID)
			st.AddSession(ss)
			f := sqlstore.NewStoreFactory(st)
			store, err := f.Create(id)
			if err != nil {
				fmt.Fprintln(os.Stderr, "sql create:", err)
				return 2
			}
			for i := 1; i <= pre; i++ {
				if err := store.SaveMessageAndIncrNextSenderMsgSeqNum(i, bodies.Bytes("m1")); err != nil {
					fmt.Fprintln(os.Stderr, "sql pre-save:", err)
					return 2
				}
			}
			next := store.NextSenderMsgSeqNum()
			sqlFail.mu.Lock()
			sqlFail.armed, sqlFail.failAt = failAt != "none", failAt
			sqlFail.mu.Unlock()
			e := store.SaveMessageAndIncrNextSenderMsgSeqNum(next, bodies.Bytes("m2"))
			sqlFail.mu.Lock()
			sqlFail.armed = false
			sqlFail.mu.Unlock()
			cacheNs := store.NextSenderMsgSeqNum()
			msgs, _ := store.GetMessages(next, next)
			store.Close()
			st2, err := f.Create(id)
			if err != nil {
				fmt.Fprintln(os.Stderr, "sql reopen:", err)
				return 2
			}
			msgs2, _ := st2.GetMessages(next, next)
			w.Put(tr.M{"pre": pre, "fail": failAt, "next": next, "err": e != nil, "cacheNs": cacheNs, "present": len(msgs) > 0,
				"reopenNs": st2.NextSenderMsgSeqNum(), "reopenPresent": len(msgs2) > 0})
			st2.Close()
		}
	}
	w.Close()
	return 0
}
