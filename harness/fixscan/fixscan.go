// Package fixscan is an independent tag=value scanner and builder. It shares no code with
// quickfix: it is the projection function for everything that leaves the engine as bytes.
package fixscan

import (
	"bytes"
	"fmt"
	"strconv"
)

type Field struct {
	Tag int
	Val []byte
	Raw []byte // "tag=value" without the SOH
	Off int    // offset of the field in the message
}

type Msg struct {
	Fields   []Field
	LenOK    bool // declared BodyLength equals the byte count between the 9 field and the 10 field
	SumOK    bool // CheckSum equals the byte sum modulo 256, three digits
	Declared int
	Actual   int
	Err      string // structural problem ("" if none)
}

// dataLen maps a length tag to the data tag that follows it (value may contain SOH).
var dataLen = map[int]int{212: 213, 93: 89, 90: 91, 95: 96, 348: 349, 350: 351, 352: 353, 354: 355, 356: 357, 358: 359, 360: 361, 362: 363, 364: 365, 618: 619, 621: 622}

// Scan splits a message into fields. Length-prefixed data fields are cut by their declared length
// when lenAware is true.
func Scan(b []byte, lenAware bool) *Msg {
	m := &Msg{}
	i := 0
	pendingData, pendingLen := 0, -1
	for i < len(b) {
		eq := bytes.IndexByte(b[i:], '=')
		if eq < 0 {
			m.Err = fmt.Sprintf("no '=' after offset %d", i)
			break
		}
		tag, err := strconv.Atoi(string(b[i : i+eq]))
		if err != nil {
			m.Err = fmt.Sprintf("bad tag %q at %d", b[i:i+eq], i)
			break
		}
		vs := i + eq + 1
		var ve int
		if lenAware && pendingLen >= 0 && tag == pendingData && vs+pendingLen < len(b) && b[vs+pendingLen] == 1 {
			ve = vs + pendingLen
		} else {
			k := bytes.IndexByte(b[vs:], 1)
			if k < 0 {
				m.Err = fmt.Sprintf("no SOH after offset %d", vs)
				break
			}
			ve = vs + k
		}
		pendingLen = -1
		f := Field{Tag: tag, Val: b[vs:ve], Raw: b[i:ve], Off: i}
		m.Fields = append(m.Fields, f)
		if d, ok := dataLen[tag]; ok {
			if n, err := strconv.Atoi(string(f.Val)); err == nil && n >= 0 {
				pendingData, pendingLen = d, n
			}
		}
		i = ve + 1
	}
	m.check(b)
	return m
}

func (m *Msg) check(b []byte) {
	n := len(m.Fields)
	if n < 3 || m.Fields[1].Tag != 9 || m.Fields[n-1].Tag != 10 {
		return
	}
	d, err := strconv.Atoi(string(m.Fields[1].Val))
	if err != nil {
		return
	}
	m.Declared = d
	start := m.Fields[2].Off
	end := m.Fields[n-1].Off
	m.Actual = end - start
	m.LenOK = m.Declared == m.Actual
	sum := 0
	for _, c := range b[:end] {
		sum += int(c)
	}
	m.SumOK = string(m.Fields[n-1].Val) == fmt.Sprintf("%03d", sum%256)
}

func (m *Msg) Get(tag int) (string, bool) {
	for _, f := range m.Fields {
		if f.Tag == tag {
			return string(f.Val), true
		}
	}
	return "", false
}

func (m *Msg) Count(tag int) int {
	n := 0
	for _, f := range m.Fields {
		if f.Tag == tag {
			n++
		}
	}
	return n
}

func (m *Msg) Int(tag int, def int) int {
	s, ok := m.Get(tag)
	if !ok {
		return def
	}
	n, err := strconv.Atoi(s)
	if err != nil {
		return def
	}
	return n
}

// KV is a field to be written.
type KV struct {
	Tag string // text of the tag (allows malformed tags)
	Val string
}

func F(tag int, val string) KV { return KV{strconv.Itoa(tag), val} }

// Build assembles 8=begin | 9=<len> | rest... | 10=<sum> with correct BodyLength and CheckSum.
func Build(begin string, rest []KV) []byte {
	var body bytes.Buffer
	for _, kv := range rest {
		body.WriteString(kv.Tag)
		body.WriteByte('=')
		body.WriteString(kv.Val)
		body.WriteByte(1)
	}
	return BuildRaw(begin, strconv.Itoa(body.Len()), body.Bytes(), "")
}

// BuildRaw lets the caller state the BodyLength text and, if non-empty, the CheckSum text.
func BuildRaw(begin, lenText string, body []byte, sumText string) []byte {
	var b bytes.Buffer
	b.WriteString("8=")
	b.WriteString(begin)
	b.WriteByte(1)
	b.WriteString("9=")
	b.WriteString(lenText)
	b.WriteByte(1)
	b.Write(body)
	if sumText == "" {
		sum := 0
		for _, c := range b.Bytes() {
			sum += int(c)
		}
		sumText = fmt.Sprintf("%03d", sum%256)
	}
	b.WriteString("10=")
	b.WriteString(sumText)
	b.WriteByte(1)
	return b.Bytes()
}
