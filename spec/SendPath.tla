------------------------------ MODULE SendPath ------------------------------
(***************************************************************************)
(* The locking protocol of the send path (session.go queueForSend /        *)
(* sendInReplyTo / prepMessageForSend / persist / sendQueued /             *)
(* EnqueueBytesAndSend, in_session.go resendMessages) and what C02 says    *)
(* about the outcome.                                                      *)
(*   Senders      application goroutines calling SendToTarget              *)
(*   "loop"       the session goroutine: flushes the queue, sends admin    *)
(*                replies, answers a ResendRequest by replaying            *)
(* Locks: resendMutex (readers = senders and admin replies, writer = the   *)
(* replay), sendMutex (number + persist + enqueue, flush).                 *)
(* UseRLock / UseSendLock = FALSE give the weakened protocols (a lock      *)
(* dropped): TLC must then find the corresponding invariant violated,      *)
(* which shows the invariants are carried by the locks and not vacuous.    *)
(* TailUnderLock = FALSE releases the resend lock before the last replayed *)
(* message (the trailing gap fill of resendMessages) is sent.              *)
(***************************************************************************)
EXTENDS Integers, Sequences, FiniteSets, TLC

CONSTANTS Senders, PerSender, LoopActions, UseRLock, UseSendLock, TailUnderLock

VARIABLES nextOut,      \* store: next outbound number
          stored,       \* store: numbers saved (with the message: [n, first-time id])
          queue,        \* toSend
          wire,         \* messages put on the outbound channel, in order: [n, pd, id]
          readers,      \* resendMutex read holders
          writer,       \* resendMutex write holder (the replay)
          sendOwner,    \* sendMutex holder
          pc, local,    \* per process control state and locals
          left,         \* messages still to submit per sender / loop actions left
          replayFrom    \* position in wire where the current replay started (0 = none)

vars == <<nextOut, stored, queue, wire, readers, writer, sendOwner, pc, local, left, replayFrom>>
Procs == Senders \cup {"loop"}
NoOne == "none"

Init == /\ nextOut = 1 /\ stored = {} /\ queue = <<>> /\ wire = <<>>
        /\ readers = {} /\ writer = FALSE /\ sendOwner = NoOne
        /\ pc = [p \in Procs |-> "idle"] /\ local = [p \in Procs |-> [n |-> 0, i |-> 0]]
        /\ left = [p \in Procs |-> IF p = "loop" THEN LoopActions ELSE PerSender]
        /\ replayFrom = 0

\* ---------------------------------------------------------------- a numbered send (sender or admin reply)
\* idle -> rlocked -> slocked -> numbered -> persisted -> enqueued(+flush for the loop) -> idle
BeginSend(p) == /\ pc[p] = "idle" /\ left[p] > 0
                /\ (UseRLock => ~writer)
                /\ readers' = IF UseRLock THEN readers \cup {p} ELSE readers
                /\ pc' = [pc EXCEPT ![p] = "rlocked"] /\ left' = [left EXCEPT ![p] = @ - 1]
                /\ UNCHANGED <<nextOut, stored, queue, wire, writer, sendOwner, local, replayFrom>>
LockSend(p) == /\ pc[p] = "rlocked"
               /\ (UseSendLock => sendOwner = NoOne)
               /\ sendOwner' = IF UseSendLock THEN p ELSE sendOwner
               /\ pc' = [pc EXCEPT ![p] = "slocked"]
               /\ UNCHANGED <<nextOut, stored, queue, wire, readers, writer, local, left, replayFrom>>
ReadNumber(p) == /\ pc[p] = "slocked"
                 /\ local' = [local EXCEPT ![p].n = nextOut]
                 /\ pc' = [pc EXCEPT ![p] = "numbered"]
                 /\ UNCHANGED <<nextOut, stored, queue, wire, readers, writer, sendOwner, left, replayFrom>>
Persist(p) == /\ pc[p] = "numbered"
              /\ stored' = stored \cup {[n |-> local[p].n, id |-> <<p, left[p]>>]}
              /\ nextOut' = local[p].n + 1
              /\ pc' = [pc EXCEPT ![p] = "persisted"]
              /\ UNCHANGED <<queue, wire, readers, writer, sendOwner, local, left, replayFrom>>
Enqueue(p) == /\ pc[p] = "persisted"
              /\ LET m == [n |-> local[p].n, pd |-> FALSE, id |-> <<p, left[p]>>] IN
                 IF p = "loop" THEN wire' = wire \o queue \o <<m>> /\ queue' = <<>>         \* sendInReplyTo flushes
                 ELSE queue' = Append(queue, m) /\ wire' = wire
              /\ readers' = readers \ {p}
              /\ sendOwner' = IF sendOwner = p THEN NoOne ELSE sendOwner
              /\ pc' = [pc EXCEPT ![p] = "idle"]
              /\ UNCHANGED <<nextOut, stored, writer, local, left, replayFrom>>

\* ---------------------------------------------------------------- the loop's other actions
Flush == /\ pc["loop"] = "idle" /\ queue # <<>>
         /\ (UseSendLock => sendOwner = NoOne)
         /\ wire' = wire \o queue /\ queue' = <<>>
         /\ UNCHANGED <<nextOut, stored, readers, writer, sendOwner, pc, local, left, replayFrom>>

BeginReplay == /\ pc["loop"] = "idle" /\ left["loop"] > 0 /\ nextOut > 1
               /\ (UseRLock => readers = {} /\ ~writer)
               /\ writer' = TRUE
               /\ pc' = [pc EXCEPT !["loop"] = "replaying"]
               /\ local' = [local EXCEPT !["loop"].i = 1, !["loop"].n = nextOut - 1]
               /\ left' = [left EXCEPT !["loop"] = @ - 1]
               /\ replayFrom' = Len(wire) + Len(queue) + 1
               /\ UNCHANGED <<nextOut, stored, queue, wire, readers, sendOwner>>
\* one replayed message (EnqueueBytesAndSend: under sendMutex, the whole queue is flushed)
ReplayOne == /\ pc["loop"] = "replaying" /\ local["loop"].i <= local["loop"].n
             /\ (UseSendLock => sendOwner = NoOne)
             /\ wire' = wire \o queue \o <<[n |-> local["loop"].i, pd |-> TRUE, id |-> <<"replay", local["loop"].i>>]>>
             /\ queue' = <<>>
             /\ local' = [local EXCEPT !["loop"].i = @ + 1]
             /\ UNCHANGED <<nextOut, stored, readers, writer, sendOwner, pc, left, replayFrom>>
\* weakened protocol: the lock is given up before the last replayed message goes out
ReleaseBeforeTail == /\ ~TailUnderLock
                     /\ pc["loop"] = "replaying" /\ local["loop"].i = local["loop"].n
                     /\ writer' = FALSE
                     /\ pc' = [pc EXCEPT !["loop"] = "tail"]
                     /\ UNCHANGED <<nextOut, stored, queue, wire, readers, sendOwner, local, left, replayFrom>>
TailOne == /\ pc["loop"] = "tail"
           /\ (UseSendLock => sendOwner = NoOne)
           /\ wire' = wire \o queue \o <<[n |-> local["loop"].i, pd |-> TRUE, id |-> <<"replay", local["loop"].i>>]>>
           /\ queue' = <<>>
           /\ pc' = [pc EXCEPT !["loop"] = "taildone"]
           /\ UNCHANGED <<nextOut, stored, readers, writer, sendOwner, local, left, replayFrom>>
EndTail == /\ pc["loop"] = "taildone"
           /\ pc' = [pc EXCEPT !["loop"] = "idle"] /\ replayFrom' = 0
           /\ UNCHANGED <<nextOut, stored, queue, wire, readers, writer, sendOwner, local, left>>
EndReplay == /\ pc["loop"] = "replaying" /\ local["loop"].i > local["loop"].n
             /\ writer' = FALSE /\ replayFrom' = 0
             /\ pc' = [pc EXCEPT !["loop"] = "idle"]
             /\ UNCHANGED <<nextOut, stored, queue, wire, readers, sendOwner, local, left>>

Step == \/ \E p \in Procs : BeginSend(p) \/ LockSend(p) \/ ReadNumber(p) \/ Persist(p) \/ Enqueue(p)
        \/ Flush \/ BeginReplay \/ ReplayOne \/ EndReplay \/ ReleaseBeforeTail \/ TailOne \/ EndTail
Next == Step
Spec == Init /\ [][Next]_vars /\ WF_vars(Flush) /\ WF_vars(ReplayOne \/ EndReplay \/ TailOne \/ EndTail) /\ \A p \in Procs : WF_vars(LockSend(p) \/ ReadNumber(p) \/ Persist(p) \/ Enqueue(p))

\* ---------------------------------------------------------------- C02
Live(w) == SelectSeq(w, LAMBDA m : ~m.pd)
Numbers == {r.n : r \in stored}
\* numbers handed out are 1, 2, ... with no gap and no repeat
C02_Consecutive == /\ Cardinality(stored) = Cardinality(Numbers)
                   /\ Numbers = 1..Cardinality(Numbers)
\* the store's next number is one past the highest handed out (when nobody is between reading and writing it)
C02_StoreNext == (\A p \in Procs : pc[p] \notin {"numbered"}) => nextOut = Cardinality(Numbers) + 1
\* first-time transmissions appear in increasing number order
C02_WireOrder == LET l == Live(wire) IN \A i, j \in DOMAIN l : i < j => l[i].n < l[j].n
\* a message is in the store no later than it reaches the wire
C02_PersistBeforeWire == \A i \in DOMAIN wire : wire[i].n \in Numbers
\* while a ResendRequest is being answered no first-time message is transmitted between the replayed ones
C02_NoLiveInsideReplay ==
    replayFrom # 0 =>
        \A i, j, k \in DOMAIN wire : (replayFrom <= i /\ i < j /\ j < k /\ wire[i].pd /\ wire[k].pd) => wire[j].pd
\* every assigned number is eventually transmitted
C02_AllTransmitted == <>[](\A r \in stored : \E i \in DOMAIN wire : wire[i].n = r.n /\ ~wire[i].pd)
=============================================================================
