----------------------------- MODULE DictTrace -----------------------------
(* Trace validation for C19.  docs.json: the specification documents as exported by an independent  *)
(* XML walk; trace.ndjson: per document and per message / header / trailer what the loaded          *)
(* DataDictionary says (Fields keys, Tags, RequiredTags, group member order), per field its type    *)
(* and enumeration, and whether loading was refused.                                                *)
EXTENDS Dictionary, Json
VARIABLE l
AllDocs == JsonDeserialize("docs.json")
Trace == ndJsonDeserialize("trace.ndjson")
SeqSet(s) == {s[i] : i \in DOMAIN s}
\* evaluated once per document (a constant), not once per line
MustRefuse == [i \in DOMAIN AllDocs |-> Refused(AllDocs[i])]
Bad(r) ==
    LET doc == AllDocs[r.doc] IN
    CASE r.k = "load" -> {x \in {"refusal"} : r.refused # MustRefuse[r.doc]}
      [] r.k = "msg" ->
           \* a document that must be refused says nothing about its messages (its names do not resolve);
           \* that it was loaded at all is reported by the "load" line
           IF MustRefuse[r.doc] THEN {} ELSE
           LET e == Expect(doc, IF r.name = "header" THEN doc.header ELSE IF r.name = "trailer" THEN doc.trailer
                                ELSE doc.messages[r.idx].parts)
               og == {<<r.groups[i].path, r.groups[i].members>> : i \in DOMAIN r.groups}
           IN {x \in {"fields", "tags", "required", "groups"} :
                 ~ CASE x = "fields" -> SeqSet(r.fields) = e.fields
                     [] x = "tags" -> SeqSet(r.tags) = e.tags
                     [] x = "required" -> SeqSet(r.req) = e.req
                     [] x = "groups" -> og = e.groups}
      [] r.k = "field" ->
           LET f == doc.fields[r.idx] IN
           {x \in {"type", "enums"} : ~ CASE x = "type" -> r.type = f.type
                                          [] x = "enums" -> SeqSet(r.enums) = SeqSet(f.enums)}
TraceInit == l = 1 /\ d = 1
TraceStep == /\ l <= Len(Trace) /\ l' = l + 1 /\ UNCHANGED d
             /\ LET bad == Bad(Trace[l]) IN IF bad = {} THEN TRUE ELSE PrintT(<<"MISMATCH", l, bad>>)
TraceSpec == TraceInit /\ [][TraceStep]_<<l, d>>
AllConsumed == TLCGet("stats").diameter = Len(Trace) + 1
=============================================================================
