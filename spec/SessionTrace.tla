---------------------------- MODULE SessionTrace ----------------------------
(***************************************************************************)
(* Trace validation for the session family.  trace.ndjson holds what the   *)
(* vsession driver recorded from a real quickfix session: one line per     *)
(* step with the absolute event, the outbound records, the callbacks, the  *)
(* timer re-arms and the projected state.  On every line two things are    *)
(* evaluated:                                                              *)
(*  - the property monitors of Monitors.tla over the observations only     *)
(*    (a failing clause is printed as <<"VIOL", line, property, clauses>>),*)
(*  - conformance: is the step a step of Engine!Step from the model's      *)
(*    state (a mismatch is printed as <<"DIVERGE", line, what>>).          *)
(* Validation never stops at a failure: the model continues from its own   *)
(* state, the monitors from the observed one.                              *)
(***************************************************************************)
EXTENDS Engine, Monitors, Json

CONSTANT Props            \* the properties whose monitors are evaluated

VARIABLES l, eng, aux, pre, cfg

Trace == ndJsonDeserialize("trace.ndjson")

TraceInit == /\ l = 1
             /\ eng = NewEngine(DefaultCfg, 1, 1, <<>>)
             /\ aux = AuxInit
             /\ pre = Post(NewEngine(DefaultCfg, 1, 1, <<>>))
             /\ cfg = DefaultCfg

Fails(p, a, o) == CASE p = "C01" -> C01_Fails(a, o)
                    [] p = "C03" -> C03_Fails(a, o)
                    [] p = "C04" -> C04_Fails(a, o)
                    [] p = "C06" -> C06_Fails(a, o)
                    [] p = "C07" -> C07_Fails(a, o)
                    [] p = "C08" -> C08_Fails(a, o)
                    [] p = "C20" -> C20_Fails(a, o)
                    [] p = "C09" -> C09_Fails(a, o)

Report(o) == \A p \in Props : LET f == Fails(p, aux, o) IN IF f = {} THEN TRUE ELSE PrintT(<<"VIOL", l, p, f>>)

Diff(r, row) == {x \in {"out", "cb", "tm", "post"} :
                    CASE x = "out" -> r.out # row.out
                      [] x = "cb" -> r.cb # row.cb
                      [] x = "tm" -> r.tm # row.tm
                      [] x = "post" -> Post(r) # row.post}

TraceStep ==
    /\ l <= Len(Trace)
    /\ l' = l + 1
    /\ LET row == Trace[l] IN
       IF row.ev.k = "TraceReset"
       THEN /\ eng' = NewEngine(row.cfg, 1, 1, <<>>)
            /\ aux' = AuxInit
            /\ pre' = row.post
            /\ cfg' = row.cfg
            /\ IF Post(NewEngine(row.cfg, 1, 1, <<>>)) = row.post THEN TRUE
               ELSE PrintT(<<"DIVERGE", l, {"init"}, Post(NewEngine(row.cfg, 1, 1, <<>>))>>)
       ELSE LET o == Obs(pre, row.ev, row.out, row.cb, row.tm, row.post, cfg)
                r == Step(eng, row.ev)
                d == Diff(r, row)
            IN /\ Report(o)
               /\ IF d = {} THEN TRUE
                  ELSE PrintT(<<"DIVERGE", l, d, [out |-> r.out, cb |-> r.cb, tm |-> r.tm, post |-> Post(r)]>>)
               /\ eng' = r
               /\ aux' = AuxNext(aux, o)
               /\ pre' = row.post
               /\ cfg' = cfg

TraceSpec == TraceInit /\ [][TraceStep]_<<l, eng, aux, pre, cfg>>

AllConsumed == TLCGet("stats").diameter = Len(Trace) + 1
=============================================================================
