------------------------------ MODULE Monitors ------------------------------
(***************************************************************************)
(* Property monitors for the session family (C01 C03 C04 C06 C07 C08 C20). *)
(* Each monitor is a predicate over ONE observed step                      *)
(*   o = [pre, ev, out, cb, tm, post, cfg]                                 *)
(* and a small monitor memory aux.  They read observations only (the       *)
(* event fed in, what appeared on the outbound channel, the application    *)
(* callbacks, the timer re-arms, the projected state before and after),    *)
(* never the model's internals, so the same text is checked by TLC on the  *)
(* model (Session.tla, action properties) and on traces recorded from the  *)
(* real code (SessionTrace.tla).  Each demands what the property states,   *)
(* no more.                                                                *)
(***************************************************************************)
EXTENDS Integers, Sequences, FiniteSets, TLC

\* pre / post are Engine!Post records (as logged by the driver) turned into the form the monitors
\* read: stash as a set, sent as a function from number to [k, x, ref]
ToMP(p) == [p EXCEPT !.stash = {p.stash[i] : i \in DOMAIN p.stash},
                     !.stasht = [n \in {p.stash[i] : i \in DOMAIN p.stash} |->
                                    p.stasht[CHOOSE i \in DOMAIN p.stash : p.stash[i] = n]],
                     !.sent = [n \in {p.sent[i].n : i \in DOMAIN p.sent} |->
                                  LET r == CHOOSE i \in DOMAIN p.sent : p.sent[i].n = n IN
                                  [k |-> p.sent[r].k, x |-> p.sent[r].x, ref |-> p.sent[r].ref]]]

Obs(pre, ev, out, cb, tm, post, cfg) ==
    [pre |-> ToMP(pre), ev |-> ev, out |-> out, cb |-> cb, tm |-> tm, post |-> ToMP(post), cfg |-> cfg]

LoggedOnSt == {"inSession", "resend", "pending(inSession)", "pending(resend)"}
Recovering == {"resend", "pending(resend)"}
PendingSt == {"pending(inSession)", "pending(resend)"}

Range(s) == {s[i] : i \in DOMAIN s}
Sel(s, T(_)) == SelectSeq(s, T)
Count(s, T(_)) == Len(SelectSeq(s, T))
Marker(cfg) == IF cfg.bs < 42 THEN 999999 ELSE 0

IsIn(o) == o.ev.k = "Incoming"
Clean(m) == m.bs = "ok" /\ m.cid = "ok" /\ m.st = "ok" /\ m.seqc = "ok" /\ m.val = "ok"
                /\ m.pd \in {"none", "Y", "N"} /\ m.gf \in {"none", "Y", "N"}
Wire(o) == Sel(o.out, LAMBDA x : x.t # "CLOSE")

\* ------------------------------------------------------------------ monitor memory
AuxInit == [lastApp |-> 0,          \* highest application MsgSeqNum delivered in this epoch
            sentAny |-> FALSE,      \* something was transmitted on the current connection
            hs |-> FALSE,           \* OnLogon was called on the current connection
            ourLogout |-> FALSE,    \* our Logout was transmitted on the current connection
            notified |-> FALSE,     \* inside a logged-on period (OnLogon seen, OnLogout not yet)
            hadPeriod |-> FALSE,    \* the current connection already had a logged-on period that ended
            resetSent |-> FALSE]    \* we transmitted a Logon with ResetSeqNumFlag=Y on the current connection

RECURSIVE CbFold(_, _, _)
CbFold(a, cb, i) ==
    IF i > Len(cb) THEN a
    ELSE LET c == cb[i] IN
         CbFold(CASE c.k = "OnLogon" -> [a EXCEPT !.notified = TRUE, !.hs = TRUE]
                  [] c.k = "OnLogout" -> [a EXCEPT !.notified = FALSE, !.hadPeriod = @ \/ a.notified]
                  [] c.k = "FromApp" /\ c.t = "D" -> [a EXCEPT !.lastApp = IF c.seq > @ THEN c.seq ELSE @]
                  [] OTHER -> a, cb, i + 1)

AuxNext(aux, o) ==
    LET newConn == o.ev.k = "Connect" /\ ~o.pre.conn
        a0 == IF newConn THEN [aux EXCEPT !.sentAny = FALSE, !.hs = FALSE, !.ourLogout = FALSE, !.hadPeriod = FALSE,
                                          !.resetSent = FALSE]
              ELSE aux
        a1 == CbFold(a0, o.cb, 1)
        \* the peer's Logon with the flag, accepted while ours is outstanding, is the echo: the exchange is over
        echoed == a1.resetSent /\ IsIn(o) /\ o.ev.m.t = "A" /\ o.ev.m.rsf = "Y" /\ o.post.nIn = o.ev.m.seq + 1
        a2 == [a1 EXCEPT !.sentAny = @ \/ Wire(o) # <<>>,
                         !.ourLogout = @ \/ (\E x \in Range(o.out) : x.t = "5"),
                         !.resetSent = (@ /\ ~echoed) \/ (\E x \in Range(o.out) : x.t = "A" /\ x.x = "Y")]
    IN IF o.post.ep # o.pre.ep THEN [a2 EXCEPT !.lastApp = 0] ELSE a2

\* ------------------------------------------------------------------ C01
FromApps(o) == Sel(o.cb, LAMBDA c : c.k = "FromApp" /\ c.t = "D")

C01_Clause(c, aux, o) ==
    LET fa == FromApps(o) IN
    CASE c = "atExpected" ->        \* handed over only at the expected number
            \A i \in DOMAIN fa : fa[i].seq = fa[i].n
      [] c = "onceInOrder" ->       \* strictly increasing within the epoch, never the same number twice
            o.post.ep = o.pre.ep =>
               /\ \A i \in DOMAIN fa : fa[i].seq > aux.lastApp
               /\ \A i, j \in DOMAIN fa : i < j => fa[i].seq < fa[j].seq
      [] c = "advanceByOne" ->      \* ... which then advances by exactly one
            /\ (Len(fa) = 1 /\ IsIn(o) /\ o.pre.stash = {} /\ o.post.ep = o.pre.ep /\ o.ev.m.t = "D")
                   => o.post.nIn = fa[1].n + 1
            /\ (Len(fa) >= 1 /\ o.post.ep = o.pre.ep) => o.post.nIn > fa[Len(fa)].n
      [] c = "monotone" ->          \* never backwards except through an explicit reset (configured, or negotiated by a
                                    \* Logon carrying ResetSeqNumFlag=Y, received or sent)
            /\ o.post.ep = o.pre.ep => o.post.nIn >= o.pre.nIn
            /\ o.post.ep # o.pre.ep =>
                  \/ o.cfg.resetOnLogon \/ o.cfg.resetOnLogout \/ o.cfg.resetOnDisconnect
                  \/ (o.cfg.schedule /\ o.ev.k = "TimeTick")
                  \/ (IsIn(o) /\ o.ev.m.t = "A" /\ o.ev.m.rsf = "Y")
                  \/ (\E i \in DOMAIN o.out : o.out[i].t = "A" /\ o.out[i].x = "Y")
                  \/ (\E i \in DOMAIN o.cb : o.cb[i].k = "ToAdmin" /\ o.cb[i].t = "A")

C01_Names == {"atExpected", "onceInOrder", "advanceByOne", "monotone"}
C01_Fails(aux, o) == {c \in C01_Names : ~C01_Clause(c, aux, o)}
C01_Step(aux, o) == C01_Fails(aux, o) = {}

\* ------------------------------------------------------------------ C04
RRs(o) == Sel(o.out, LAMBDA x : x.t = "2")
SeqChecked(m) == m.t \in {"D", "0", "1", "3"} \/ (m.t = "4" /\ m.gf = "Y")

\* a ResendRequest is *generated* when the administrative send callback sees it (it may sit in the
\* send queue until the next flush when the gap is detected on the Logon itself)
GenRR(o) == Count(o.cb, LAMBDA c : c.k = "ToAdmin" /\ c.t = "2")

\* the early message was kept - or was already taken from the stash and handled within the same step
KeptOrHandled(o, m) ==
    \/ m.seq \in o.post.stash
    \/ o.post.nIn > m.seq
    \/ \E i \in DOMAIN o.cb : o.cb[i].k \in {"FromApp", "FromAdmin"} /\ o.cb[i].seq = m.seq /\ o.cb[i].n = m.seq

C04_Clause(c, aux, o) ==
    LET rr == RRs(o)
        pre == o.pre
        m == o.ev.m
        tooHigh == IsIn(o) /\ Clean(m) /\ SeqChecked(m) /\ m.seq > pre.nIn
        gapEnd == m.seq - 1
        chunkEnd == pre.nIn + o.cfg.chunk - 1
        wantEnd == IF o.cfg.chunk # 0 /\ chunkEnd < gapEnd THEN chunkEnd ELSE Marker(o.cfg)
    IN
    CASE c = "requestOnGap" ->   \* a gap seen in normal operation: exactly one exact ResendRequest, message kept
            (tooHigh /\ pre.st \in {"inSession", "pending(inSession)"} /\ pre.q = 0) =>
                /\ GenRR(o) = 1 /\ Len(rr) = 1 /\ rr[1].a = pre.nIn /\ rr[1].b = wantEnd
                /\ KeptOrHandled(o, m)
      [] c = "requestOnLogonGap" ->  \* a gap seen on the Logon itself: one ResendRequest, recovery starts
            (IsIn(o) /\ m.t = "A" /\ Clean(m) /\ m.app = "ok" /\ m.rsf # "Y" /\ pre.st = "logon" /\ m.seq > pre.nIn
                /\ ~o.cfg.resetOnLogon) =>
                (GenRR(o) = 1 /\ o.post.st \in Recovering)
      [] c = "noExtraRequest" -> \* while recovering: only next-chunk requests, beginning at the number expected then
            (pre.st \in Recovering /\ o.ev.k \in {"Incoming", "Consume", "Timeout"}) =>
                /\ o.cfg.chunk = 0 => GenRR(o) = 0
                /\ GenRR(o) <= 1
                /\ (GenRR(o) = 1 /\ pre.q = 0 /\ Len(rr) = 1) => (rr[1].a = o.post.nIn /\ o.post.st \in Recovering)
      [] c = "keepsEarly" ->     \* an early message arriving during recovery is kept too
            \* (kept, or already delivered from the stash within the same step)
            (tooHigh /\ pre.st \in Recovering /\ o.post.st \in LoggedOnSt) => KeptOrHandled(o, m)
      [] c = "nothingKeptIsLost" ->
            \* while recovery goes on, no kept message above the expected number disappears
            (pre.st \in Recovering /\ o.post.st \in Recovering /\ o.post.ep = pre.ep
                /\ o.ev.k \in {"Incoming", "Consume", "Timeout"}) =>
                \A k \in pre.stash : k > o.post.nIn => k \in o.post.stash
      [] c = "drainDelivers" ->
            \* once the missing numbers have arrived every kept message that is next in sequence is
            \* delivered: recovery never ends with a kept, number-consuming message AT the expected number
            (pre.st \in Recovering /\ o.post.st \in {"inSession", "pending(inSession)"} /\ o.post.ep = pre.ep
                /\ o.ev.k \in {"Incoming", "Consume"}) =>
                \* (unless the peer just sent a different message under that very number, replacing it)
                ~(o.post.nIn \in pre.stash /\ pre.stasht[o.post.nIn] \in {"D", "0", "1", "3"}
                  /\ ~(IsIn(o) /\ o.ev.m.seqc = "ok" /\ o.ev.m.seq = o.post.nIn))

      [] c = "recoverySurvivesTimer" ->
            \* a timer event does not end a recovery in progress (short of disconnecting): the kept messages and
            \* the requested range are still there afterwards
            (pre.st \in Recovering /\ o.ev.k = "Timeout" /\ o.post.st \in LoggedOnSt /\ o.post.ep = pre.ep) =>
                (o.post.st \in Recovering /\ o.post.stash = pre.stash /\ o.post.rrEnd = pre.rrEnd)

C04_Names == {"requestOnGap", "requestOnLogonGap", "noExtraRequest", "keepsEarly", "nothingKeptIsLost", "drainDelivers",
              "recoverySurvivesTimer"}
C04_Fails(aux, o) == {c \in C04_Names : ~C04_Clause(c, aux, o)}
C04_Step(aux, o) == C04_Fails(aux, o) = {}

\* ------------------------------------------------------------------ C06
Froms(o) == Sel(o.cb, LAMBDA c : c.k \in {"FromApp", "FromAdmin"})
Rejects(o) == Sel(o.out, LAMBDA x : x.t \in {"3", "j"} /\ ~x.pd)        \* first-time rejects (not replays)
ExpectedRouting == "49=ENG|56=PEER|50=ESUB|57=PSUB|143=PLOC|115=DLV|128=OBO"

\* does the message fail a session-level check the property lists?
Defective(o, m) ==
    \/ m.bs # "ok" \/ m.cid # "ok" \/ m.val # "ok"
    \/ (m.st # "ok" /\ o.cfg.checkLatency /\ o.pre.st \notin Recovering)

C06_Clause(c, aux, o) ==
    LET m == o.ev.m
        pre == o.pre
        w == Wire(o)
        rj == Rejects(o)
        bs42 == o.cfg.bs >= 42
        reasonIs(x, r) == IF bs42 THEN x.a = r ELSE x.a = -1
        plainReject(tag) == /\ Len(w) = 1 /\ w[1].t = "3" /\ (bs42 => w[1].b = tag)
                            /\ o.post.st \in LoggedOnSt
        single(d) == \* the message's only defect is d
            /\ (d = "bs") = (m.bs # "ok") /\ (d = "cid") = (m.cid # "ok") /\ (d = "st") = (m.st # "ok")
            /\ (d = "seqc") = (m.seqc # "ok") /\ m.val = "ok" /\ m.app = "ok"
            /\ m.pd \in {"none", "Y", "N"} /\ m.gf \in {"none", "Y", "N"}
        live == IsIn(o) /\ m.t # "garbled" /\ pre.st \in LoggedOnSt
        calm == live /\ pre.st \notin Recovering /\ pre.stash = {} /\ pre.q = 0   \* reactions are judged outside recovery
    IN
    CASE c = "gate" ->       \* nothing defective reaches the application / administrative callback
            (live /\ Defective(o, m) /\ m.t # "A") =>
                /\ pre.stash = {} => Froms(o) = <<>>
                \* (a kept, well-formed message of the same number and type may be delivered from the stash in this step)
                /\ (m.seqc = "ok" /\ m.seq \notin pre.stash) => \A i \in DOMAIN Froms(o) : Froms(o)[i].seq # m.seq \/ Froms(o)[i].t # m.t
      [] c = "logonGate" ->  \* a Logon establishes the session only if it passes the checks
            (IsIn(o) /\ m.t = "A" /\ pre.st = "logon" /\ Defective(o, m)) =>
                /\ o.post.st \notin LoggedOnSt
                /\ \A i \in DOMAIN o.cb : o.cb[i].k # "OnLogon"
      [] c = "wrongBeginString" ->
            (calm /\ single("bs")) => (Len(w) = 1 /\ w[1].t = "5" /\ o.post.nIn = pre.nIn)
      [] c = "wrongCompID" ->
            (calm /\ single("cid") /\ m.cid = "wrong" /\ m.t # "A") =>
                (Len(w) = 2 /\ w[1].t = "3" /\ reasonIs(w[1], 9) /\ w[2].t = "5" /\ o.post.nIn = pre.nIn)
      [] c = "staleSendingTime" ->
            (calm /\ single("st") /\ m.st \in {"stale", "future"} /\ o.cfg.checkLatency /\ m.t # "A") =>
                (Len(w) = 2 /\ w[1].t = "3" /\ reasonIs(w[1], 10) /\ w[2].t = "5" /\ o.post.nIn = pre.nIn)
      [] c = "tooLowNoPossDup" ->
            (calm /\ Clean(m) /\ m.app = "ok" /\ m.t \in {"D", "0", "1", "3"} /\ m.seq < pre.nIn /\ m.pd \in {"none", "N"}) =>
                (Len(w) = 1 /\ w[1].t = "5" /\ o.post.nIn = pre.nIn)
      [] c = "malformedField" ->   \* missing / empty / malformed field: a plain Reject naming the field
            /\ (calm /\ single("cid") /\ m.cid \in {"nosender", "emptysender"} /\ m.t # "A") => plainReject(49)
            /\ (calm /\ single("cid") /\ m.cid \in {"notarget", "emptytarget"} /\ m.t # "A") => plainReject(56)
            /\ (calm /\ single("st") /\ m.st \in {"missing", "bad"} /\ o.cfg.checkLatency /\ m.t # "A") => plainReject(52)
            /\ (calm /\ single("seqc") /\ m.t \in {"D", "0", "1", "3"}) => plainReject(34)
      [] c = "rejectQuotesSeq" ->
            (live /\ pre.stash = {} /\ pre.q = 0 /\ m.seqc = "ok") => \A i \in DOMAIN rj : rj[i].c = m.seq
      [] c = "reverseRoute" ->
            live => \A i \in DOMAIN rj : rj[i].rt = ExpectedRouting

C06_Names == {"gate", "logonGate", "wrongBeginString", "wrongCompID", "staleSendingTime", "tooLowNoPossDup",
              "malformedField", "rejectQuotesSeq", "reverseRoute"}
C06_Fails(aux, o) == {c \in C06_Names : ~C06_Clause(c, aux, o)}
C06_Step(aux, o) == C06_Fails(aux, o) = {}

\* ------------------------------------------------------------------ C07
NoResetConfigured(cfg) == ~cfg.resetOnLogon /\ ~cfg.resetOnLogout /\ ~cfg.resetOnDisconnect
LogonsOut(o) == Sel(o.out, LAMBDA x : x.t = "A")

C07_Clause(c, aux, o) ==
    LET pre == o.pre
        post == o.post
        m == o.ev.m
        flagIn == IsIn(o) /\ m.t = "A" /\ m.rsf = "Y"
        flagOut == \E i \in DOMAIN o.out : o.out[i].t = "A" /\ o.out[i].x = "Y"
        flagGen == \E i \in DOMAIN o.cb : o.cb[i].k = "ToAdmin" /\ o.cb[i].t = "A"
        lo == LogonsOut(o)
        goodLogon1 == flagIn /\ Clean(m) /\ m.app = "ok" /\ m.seq = 1 /\ pre.st = "logon" /\ post.st \in LoggedOnSt
    IN
    CASE c = "onlyAgreedResets" ->   \* nothing but a configured option or a negotiated flag resets the store
            \* (the start of a new window of a configured session schedule is a configured reset)
            (NoResetConfigured(o.cfg) /\ ~flagIn /\ ~flagOut /\ ~flagGen /\ ~(o.cfg.schedule /\ o.ev.k = "TimeTick")) => post.ep = pre.ep
      [] c = "scheduleRollover" ->   \* a tick inside the window of the store's creation changes nothing; a tick in a later
                                     \* window starts a new session: both counters 1, nothing stored
            /\ (o.cfg.schedule /\ o.ev.k = "TimeTick" /\ o.ev.e = "same") =>
                    (post.ep = pre.ep /\ post.nIn = pre.nIn /\ post.nOut = pre.nOut /\ Wire(o) = <<>>)
            /\ (o.cfg.schedule /\ o.ev.k = "TimeTick" /\ o.ev.e = "next" /\ pre.inbuf = 0) =>
                    (post.nIn = 1 /\ post.nOut = 1 /\ DOMAIN post.sent = {} /\ ~post.conn)
            /\ (o.cfg.schedule /\ o.ev.k = "TimeTick" /\ o.ev.e = "out" /\ pre.inbuf = 0 /\ NoResetConfigured(o.cfg)) =>
                    (post.ep = pre.ep /\ post.st = "notSessionTime" /\ ~post.conn)
      [] c = "continuity" ->         \* disconnecting and reconnecting leave counters and stored messages alone
            /\ (NoResetConfigured(o.cfg) /\ o.ev.k = "Disconnected" /\ pre.inbuf = 0) =>
                    (post.nIn = pre.nIn /\ post.nOut = pre.nOut /\ post.sent = pre.sent)
            /\ (NoResetConfigured(o.cfg) /\ o.ev.k = "Connect" /\ o.cfg.role = "acc") =>
                    (post.nIn = pre.nIn /\ post.nOut = pre.nOut /\ post.sent = pre.sent)
            /\ (NoResetConfigured(o.cfg) /\ o.ev.k = "Connect" /\ o.cfg.role = "init" /\ ~pre.conn /\ pre.st = "latent") =>
                    (post.nIn = pre.nIn /\ post.nOut = pre.nOut + 1 /\ Len(lo) = 1 /\ lo[1].seq = pre.nOut /\ lo[1].x = "")
      [] c = "resetLogonSent" ->     \* configured to reset on logon: our Logon is number 1 and carries the flag
            (o.ev.k = "Connect" /\ o.cfg.role = "init" /\ o.cfg.resetOnLogon /\ o.cfg.bs >= 41 /\ ~pre.conn /\ pre.st = "latent") =>
                    (Len(lo) = 1 /\ lo[1].seq = 1 /\ lo[1].x = "Y" /\ post.nOut = 2 /\ post.nIn = 1)
      [] c = "resetLogonReceived" -> \* Logon 1 with the flag: reply Logon 1 echoing it, both sides count from 1
            \* (unless our own Logon with the flag is already out on this connection - ResetSeqTime crossed
            \* before the peer's Logon arrived - in which case that Logon is the one the peer sees as the answer)
            (goodLogon1 /\ o.cfg.role = "acc" /\ ~aux.resetSent) =>
                    (Len(lo) = 1 /\ lo[1].seq = 1 /\ lo[1].x = "Y" /\ post.nOut = 2 /\ post.nIn = 2)
      [] c = "echoDoesNotResetAgain" ->
            (goodLogon1 /\ o.cfg.role = "init" /\ aux.resetSent) =>
                    (post.ep = pre.ep /\ post.nIn = 2 /\ post.nOut = pre.nOut)
      [] c = "resetFlagHonoured" ->  \* a received flag that does not answer a reset of ours resets the store
            (goodLogon1 /\ o.cfg.role = "init" /\ ~aux.resetSent) =>
                    (post.ep # pre.ep /\ post.nIn = 2 /\ post.nOut = 1)
      [] c = "resetAtTime" ->        \* ResetSeqTime crossed while connected: our Logon is number 1 and carries the flag
            /\ (o.ev.k = "ResetTick" /\ o.cfg.resetSeqTime /\ pre.conn /\ pre.st \in LoggedOnSt) =>
                    (Len(lo) = 1 /\ lo[1].seq = 1 /\ lo[1].x = "Y" /\ post.nOut = 2 /\ post.nIn = 1 /\ post.ep # pre.ep)
            /\ (o.ev.k = "ResetTick" /\ (~o.cfg.resetSeqTime \/ ~pre.conn)) =>
                    (post.ep = pre.ep /\ post.nIn = pre.nIn /\ post.nOut = pre.nOut /\ Wire(o) = <<>>)
      [] c = "echoOfTimedReset" ->   \* the peer's echo (its number 1) of a reset we started while logged on completes the
                                     \* exchange: we go on from 2 and do not reset, or number a message 1, again
            (flagIn /\ Clean(m) /\ m.app = "ok" /\ m.seq = 1 /\ pre.st \in {"inSession", "pending(inSession)"}
                /\ aux.resetSent /\ pre.nIn = 1 /\ pre.nOut = 2 /\ pre.q = 0 /\ pre.inbuf = 0) =>
                    (post.ep = pre.ep /\ post.nIn = 2 /\ post.nOut = 2 /\ Len(lo) = 0)
      [] c = "inSessionResetHonoured" ->   \* a reset requested by the peer while logged on (its Logon is number 1 and
                                           \* carries the flag, and it is not the echo of a reset of ours)
            (flagIn /\ Clean(m) /\ m.app = "ok" /\ m.seq = 1 /\ pre.st \in {"inSession", "pending(inSession)"}
                /\ ~aux.resetSent /\ pre.q = 0 /\ pre.inbuf = 0) =>
                    /\ post.ep # pre.ep /\ post.nIn = 2
                    /\ o.cfg.role = "acc" => (Len(lo) = 1 /\ lo[1].seq = 1 /\ lo[1].x = "Y" /\ post.nOut = 2)
                    /\ o.cfg.role = "init" => post.nOut = 1
      [] c = "refusedLogonResetsNothing" ->   \* a Logon that is refused (by the application, or because it fails the
                                              \* session-level checks) is no agreement: nothing is reset
            \* (refused = defective in one of these ways and not followed by the logon notification)
            (IsIn(o) /\ m.t = "A" /\ NoResetConfigured(o.cfg) /\ ~flagOut /\ pre.inbuf = 0
                /\ (m.app = "rejlogon" \/ m.bs # "ok" \/ m.cid # "ok" \/ (m.st # "ok" /\ o.cfg.checkLatency))
                /\ ~(\E i \in DOMAIN o.cb : o.cb[i].k = "OnLogon")) =>
                    post.ep = pre.ep
      [] c = "resetOnLogout" ->
            (o.cfg.resetOnLogout /\ IsIn(o) /\ m.t = "5" /\ Clean(m) /\ m.app = "ok"
                /\ pre.st \in LoggedOnSt \cup {"logout"} /\ pre.inbuf = 0) =>
                    (post.nIn = 1 /\ post.nOut = 1 /\ DOMAIN post.sent = {})
      [] c = "resetOnDisconnect" ->
            (o.cfg.resetOnDisconnect /\ pre.conn /\ ~post.conn /\ pre.inbuf = 0) =>
                    (post.nIn = 1 /\ post.nOut = 1 /\ DOMAIN post.sent = {})
      [] c = "seqResetForwardOnly" ->
            (IsIn(o) /\ m.t = "4" /\ pre.st \in LoggedOnSt /\ post.ep = pre.ep /\ pre.stash = {}) =>
                /\ post.nIn >= pre.nIn
                /\ (Clean(m) /\ m.app = "ok" /\ m.newseq > 0 /\ m.newseq < pre.nIn /\ (m.gf = "Y" => m.seq = pre.nIn)
                      /\ pre.q = 0 /\ pre.st \in {"inSession", "pending(inSession)"}) =>
                      (post.nIn = pre.nIn /\ Len(Rejects(o)) = 1)
                /\ (Clean(m) /\ m.app = "ok" /\ m.newseq > pre.nIn /\ (m.gf = "Y" => m.seq = pre.nIn)) =>
                      post.nIn = m.newseq

C07_Names == {"onlyAgreedResets", "continuity", "resetLogonSent", "resetLogonReceived", "echoDoesNotResetAgain", "resetFlagHonoured",
              "resetAtTime", "echoOfTimedReset", "scheduleRollover", "inSessionResetHonoured", "refusedLogonResetsNothing",
              "resetOnLogout", "resetOnDisconnect", "seqResetForwardOnly"}
C07_Fails(aux, o) == {c \in C07_Names : ~C07_Clause(c, aux, o)}
C07_Step(aux, o) == C07_Fails(aux, o) = {}

\* ------------------------------------------------------------------ C08
RECURSIVE CbWalkApp(_, _, _), CbWalkLogout(_, _, _, _)
\* FromApp only inside a logged-on period
CbWalkApp(notified, cb, i) ==
    IF i > Len(cb) THEN TRUE
    ELSE LET c == cb[i] IN
         CASE c.k = "OnLogon" -> CbWalkApp(TRUE, cb, i + 1)
           [] c.k = "OnLogout" -> CbWalkApp(FALSE, cb, i + 1)
           [] c.k = "FromApp" /\ c.t = "D" -> notified /\ CbWalkApp(notified, cb, i + 1)
           [] OTHER -> CbWalkApp(notified, cb, i + 1)
\* one logout notification per logged-on period (a notification without any period on the
\* connection - an initiator whose logon attempt fails - is not forbidden by the statement)
CbWalkLogout(notified, hadPeriod, cb, i) ==
    IF i > Len(cb) THEN TRUE
    ELSE LET c == cb[i] IN
         CASE c.k = "OnLogon" -> CbWalkLogout(TRUE, hadPeriod, cb, i + 1)
           [] c.k = "OnLogout" -> (notified \/ ~hadPeriod) /\ CbWalkLogout(FALSE, hadPeriod \/ notified, cb, i + 1)
           [] OTHER -> CbWalkLogout(notified, hadPeriod, cb, i + 1)

C08_Clause(c, aux, o) ==
    LET newConn == o.ev.k = "Connect" /\ ~o.pre.conn
        a == IF newConn THEN [aux EXCEPT !.sentAny = FALSE, !.hs = FALSE, !.ourLogout = FALSE, !.hadPeriod = FALSE] ELSE aux
        w == Wire(o)
        logonNow == \E i \in DOMAIN o.cb : o.cb[i].k = "OnLogon"
        after == AuxNext(aux, o)
    IN
    CASE c = "firstIsLogonOrLogout" -> (~a.sentAny /\ w # <<>>) => w[1].t \in {"A", "5"}
      [] c = "noAppBeforeHandshake" -> \A i \in DOMAIN w : (w[i].t = "D" /\ ~w[i].pd) => (a.hs \/ logonNow)
      [] c = "noAppAfterOurLogout" ->
            \A i \in DOMAIN w : (w[i].t = "D" /\ ~w[i].pd) => (~a.ourLogout /\ \A j \in 1..(i - 1) : w[j].t # "5")
      [] c = "deliverInsideLogon" -> CbWalkApp(a.notified, o.cb, 1)
      [] c = "oneLogoutPerPeriod" ->
            /\ CbWalkLogout(a.notified, a.hadPeriod, o.cb, 1)
            /\ (o.pre.conn /\ ~o.post.conn) => ~after.notified
      [] c = "nothingAfterClose" ->
            /\ \A i \in DOMAIN o.out : o.out[i].t = "CLOSE" => i = Len(o.out)
            /\ (~o.pre.conn /\ ~newConn) => w = <<>>

C08_Names == {"firstIsLogonOrLogout", "noAppBeforeHandshake", "noAppAfterOurLogout", "deliverInsideLogon",
              "oneLogoutPerPeriod", "nothingAfterClose"}
C08_Fails(aux, o) == {c \in C08_Names : ~C08_Clause(c, aux, o)}
C08_Step(aux, o) == C08_Fails(aux, o) = {}

\* ------------------------------------------------------------------ C20
HBs(o) == Sel(o.out, LAMBDA x : x.t = "0")
OnLogouts(o) == Sel(o.cb, LAMBDA c : c.k = "OnLogout")

C20_Clause(c, aux, o) ==
    LET pre == o.pre
        post == o.post
        m == o.ev.m
        w == Wire(o)
        tmo(e) == o.ev.k = "Timeout" /\ o.ev.e = e
    IN
    CASE c = "echoTestReqID" ->   \* TestRequest in sequence -> one Heartbeat with the same TestReqID
            (IsIn(o) /\ m.t = "1" /\ Clean(m) /\ m.app = "ok" /\ m.seq = pre.nIn /\ pre.st \in LoggedOnSt /\ m.trid # ""
                /\ m.pd = "none" /\ pre.q = 0) =>
                /\ Count(o.out, LAMBDA x : x.t = "0" /\ x.x = m.trid) >= 1
                /\ pre.stash = {} => (Len(HBs(o)) = 1 /\ Count(o.out, LAMBDA x : x.t = "0" /\ x.x = m.trid) = 1)
      [] c = "heartbeatOnIdle" ->
            /\ (tmo("NeedHeartbeat") /\ pre.st \in {"inSession", "resend"} /\ pre.q = 0) =>
                    (Len(w) = 1 /\ w[1].t = "0" /\ w[1].x = "" /\ post.st = pre.st)
            /\ (tmo("NeedHeartbeat") /\ pre.st \in PendingSt) => HBs(o) = <<>>
      [] c = "testRequestOnSilence" ->
            (tmo("PeerTimeout") /\ pre.st \in {"inSession", "resend"} /\ pre.q = 0) =>
                /\ Len(w) = 1 /\ w[1].t = "1" /\ w[1].x # ""
                /\ post.st = "pending(" \o pre.st \o ")"
                /\ \E i \in DOMAIN o.tm : o.tm[i] = <<"peer", post.hb * 1200>>
                /\ post.stash = pre.stash /\ post.rrEnd = pre.rrEnd /\ post.rrCur = pre.rrCur
      [] c = "disconnectOnSecondSilence" ->
            (tmo("PeerTimeout") /\ pre.st \in PendingSt) =>
                /\ ~post.conn /\ post.st \notin LoggedOnSt
                /\ Len(OnLogouts(o)) = 1
                /\ \E i \in DOMAIN o.out : o.out[i].t = "CLOSE"
      [] c = "inboundCancels" ->
            (IsIn(o) /\ m.t # "garbled" /\ pre.st \in PendingSt) => post.st \notin PendingSt
      [] c = "recoveryUndisturbed" ->  \* ... without disturbing a gap recovery in progress
            (IsIn(o) /\ m.t # "garbled" /\ pre.st = "pending(resend)" /\ post.st \in LoggedOnSt /\ post.ep = pre.ep) =>
                /\ post.st \in Recovering \/ \A k \in pre.stash : k <= post.nIn
                /\ \A k \in pre.stash : k > post.nIn => k \in post.stash
                /\ (Clean(m) /\ SeqChecked(m) /\ m.seq > pre.nIn) =>
                        (KeptOrHandled(o, m) /\ (o.cfg.chunk = 0 => GenRR(o) = 0))
      [] c = "arming" ->     \* every transmitted message re-arms the heartbeat timer, every inbound frame the peer timer
            /\ Count(o.tm, LAMBDA t : t[1] = "hb") = Len(w)
            /\ \A i \in DOMAIN o.tm : o.tm[i][1] = "hb" => (o.tm[i][2] = post.hb * 1000 \/ o.tm[i][2] = pre.hb * 1000)
            /\ \A i \in DOMAIN o.tm : o.tm[i][1] = "peer" => (o.tm[i][2] = post.hb * 1200 \/ o.tm[i][2] = pre.hb * 1200)
            /\ (IsIn(o) /\ pre.conn /\ pre.st \in LoggedOnSt /\ pre.inbuf = 0) => \E i \in DOMAIN o.tm : o.tm[i][1] = "peer"
            \* a Logon that leaves the session logged on (in sequence, or opening a gap recovery) starts the watch
            /\ (IsIn(o) /\ m.t = "A" /\ pre.conn /\ pre.st = "logon" /\ post.st \in LoggedOnSt /\ post.conn /\ pre.inbuf = 0) =>
                    \E i \in DOMAIN o.tm : o.tm[i] = <<"peer", post.hb * 1200>>
      [] c = "acceptorInterval" ->
            (IsIn(o) /\ m.t = "A" /\ Clean(m) /\ m.app = "ok" /\ pre.st = "logon" /\ o.cfg.role = "acc" /\ post.st \in LoggedOnSt) =>
                /\ post.hb = IF o.cfg.hbOverride THEN o.cfg.hbCfg ELSE m.hb
                /\ \A i \in DOMAIN o.out : o.out[i].t = "A" => o.out[i].a = post.hb

C20_Names == {"echoTestReqID", "heartbeatOnIdle", "testRequestOnSilence", "disconnectOnSecondSilence",
              "inboundCancels", "recoveryUndisturbed", "arming", "acceptorInterval"}
C20_Fails(aux, o) == {c \in C20_Names : ~C20_Clause(c, aux, o)}
C20_Step(aux, o) == C20_Fails(aux, o) = {}

\* ------------------------------------------------------------------ C09 (session part)
\* a session that received garbage still processes the next well-formed message: an in-sequence
\* TestRequest in a logged-on state is answered (panics and hangs are detected by the driver)
C09_Fails(aux, o) == {c \in {"stillProcesses"} : ~C20_Clause("echoTestReqID", aux, o)}
C09_Step(aux, o) == C09_Fails(aux, o) = {}

\* ------------------------------------------------------------------ C03
RECURSIVE Contig(_, _, _)
\* run[i..] starts at `at' and each message's coverage starts where the previous ended
Contig(run, i, at) ==
    IF i > Len(run) THEN at
    ELSE IF run[i].seq # at THEN -1
    ELSE LET nxt == IF run[i].t = "4" THEN run[i].a ELSE run[i].seq + 1 IN
         IF nxt <= at THEN -1 ELSE Contig(run, i + 1, nxt)

C03_Clause(c, aux, o) ==
    LET pre == o.pre
        m == o.ev.m
        last == pre.nOut - 1
        inf == (o.cfg.bs >= 42 /\ m.e = 0) \/ (o.cfg.bs <= 42 /\ m.e = 999999)
        e == IF inf \/ m.e > last THEN last ELSE m.e
        run == Sel(o.out, LAMBDA x : x.pd)
        sent == pre.sent
        replayable(n) == n \in DOMAIN sent /\ sent[n].k = "app" /\ ~sent[n].ref
        applies == IsIn(o) /\ m.t = "2" /\ Clean(m) /\ m.app = "ok" /\ m.b >= 1 /\ m.e >= 0 /\ pre.st = "inSession"
                   /\ pre.inbuf = 0
    IN
    CASE c = "allPossDup" ->     \* the reply is a run of PossDup messages: replays and gap fills only, well-formed
            applies => \A i \in DOMAIN run : /\ run[i].t \notin {"A", "5", "0", "1", "2", "3"}
                                               /\ (run[i].t = "4" => run[i].x = "Y") /\ run[i].wf
      [] c = "coverage" ->       \* starts at b, contiguous, ends exactly at min(e, last) + 1; nothing for an empty range
            applies => IF m.b > e THEN run = <<>> ELSE Contig(run, 1, m.b) = e + 1
      [] c = "replaysIntact" ->  \* application messages under their own number, body and OrigSendingTime intact
            applies => \A i \in DOMAIN run : run[i].t # "4" =>
                          /\ replayable(run[i].seq)
                          /\ run[i].t = "D" => (run[i].x = sent[run[i].seq].x /\ run[i].c = 3)
      [] c = "gapFillsOnlyForAdminAndRefused" ->
            (applies /\ o.cfg.persist) =>
                \A n \in m.b..e : replayable(n) => \E i \in DOMAIN run : run[i].t # "4" /\ run[i].seq = n

C03_Names == {"allPossDup", "coverage", "replaysIntact", "gapFillsOnlyForAdminAndRefused"}
C03_Fails(aux, o) == {c \in C03_Names : ~C03_Clause(c, aux, o)}
C03_Step(aux, o) == C03_Fails(aux, o) = {}
=============================================================================
