SPECIFICATION Spec
CONSTANTS
  Senders = {"a", "b"}
  PerSender = 2
  LoopActions = 2
  UseRLock = TRUE
  UseSendLock = TRUE
  TailUnderLock = TRUE
INVARIANTS C02_Consecutive C02_StoreNext C02_WireOrder C02_PersistBeforeWire C02_NoLiveInsideReplay
CHECK_DEADLOCK FALSE
