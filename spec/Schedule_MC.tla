---- MODULE Schedule_MC ----
EXTENDS Schedule
MCTimes == {0, 7200, 61200, 84600}
MCDaySets == {{}, {1,2,3,4,5}, {6}, {0}, {6,0}, {1}}
\* instants over two weeks around window edges of the times above (never on an edge)
MCGrid == {-3600, 1800, 7000, 9000, 43200, 60000, 63000, 84000, 86000, 88200, 93600, 129600, 170000, 174600,
           259200, 520000, 522000, 604000, 606600, 612000, 691200, 1209000}
====
