-------------------------------- MODULE Pair --------------------------------
(***************************************************************************)
(* Two engines - an initiator "A" and an acceptor "B" - connected by two    *)
(* directed queues of messages in flight, under sends on both sides,        *)
(* deliveries, cuts (everything still in flight is lost), reconnects,       *)
(* timer events and restarts of an engine on its persistent store.          *)
(* Both engines are Engine!Step; what one puts on its outbound channel is   *)
(* converted (Conv) into what the other receives.  C05: every application   *)
(* message accepted for sending on one side is delivered to the other       *)
(* side's application exactly once and in submission order once the link    *)
(* stays up for a few heartbeat intervals; nothing else is delivered.       *)
(***************************************************************************)
EXTENDS Engine

CONSTANTS MaxSends, MaxCuts, MaxRestarts, MaxFlight, MaxTimers, Chunk

VARIABLES eng,        \* [A, B] -> Engine record
          net,        \* [AB, BA] -> sequence of outbound records in flight ("CLOSE" = the sender closed)
          got,        \* [A, B] -> sequence of MsgSeqNums handed to FromApp on that side (history)
          budget      \* [sends, cuts, restarts] left

vars == <<eng, net, got, budget>>
Nodes == {"A", "B"}
Other(n) == IF n = "A" THEN "B" ELSE "A"
Dir(n) == IF n = "A" THEN "AB" ELSE "BA"           \* queue that node n writes to

CfgOf(n) == [DefaultCfg EXCEPT !.role = IF n = "A" THEN "init" ELSE "acc", !.chunk = Chunk]     \* Chunk: ResendRequestChunkSize of both

\* an outbound record as the peer receives it
Conv(o) == [t |-> o.t, seq |-> o.seq, seqc |-> "ok", pd |-> IF o.pd THEN "Y" ELSE "none", ost |-> IF o.pd THEN "ok" ELSE "none",
            bs |-> "ok", cid |-> "ok", st |-> "ok", val |-> "ok", app |-> "ok",
            gf |-> IF o.t = "4" /\ o.x = "Y" THEN "Y" ELSE "none", newseq |-> IF o.t = "4" THEN o.a ELSE 0,
            b |-> IF o.t = "2" THEN o.a ELSE 0, e |-> IF o.t = "2" THEN o.b ELSE 0,
            trid |-> IF o.t \in {"0", "1"} THEN o.x ELSE "", rsf |-> IF o.t = "A" /\ o.x = "Y" THEN "Y" ELSE "none",
            hb |-> IF o.t = "A" THEN o.a ELSE 30, dav |-> "ok"]

Delivered(s) == LET fa == SelectSeq(s.cb, LAMBDA c : c.k = "FromApp") IN [i \in DOMAIN fa |-> fa[i].seq]

\* apply one engine event at node n: outputs go in flight, deliveries are recorded
Apply(n, ev) ==
    LET s1 == Step(eng[n], ev) IN
    /\ eng' = [eng EXCEPT ![n] = s1]
    /\ net' = [net EXCEPT ![Dir(n)] = @ \o s1.out]
    /\ got' = [got EXCEPT ![n] = @ \o Delivered(s1)]

AppSend(n) == /\ budget.sends > 0
              /\ Len(net[Dir(n)]) < MaxFlight
              /\ LET s1 == Step(eng[n], [k |-> "Send", a |-> [x |-> "b", dns |-> FALSE, ref |-> FALSE]])
                     s2 == Step(s1, [k |-> "Flush"]) IN
                 /\ eng' = [eng EXCEPT ![n] = s2]
                 /\ net' = [net EXCEPT ![Dir(n)] = @ \o s2.out]
                 /\ got' = got
              /\ budget' = [budget EXCEPT !.sends = @ - 1]

\* the head of the queue written by n reaches the other node
Deliver(n) ==
    /\ net[Dir(n)] # <<>>
    /\ LET o == Head(net[Dir(n)])
           m == Other(n)
           ev == IF o.t = "CLOSE" THEN [k |-> "Disconnected"] ELSE [k |-> "Incoming", m |-> Conv(o)]
           s1 == Step(eng[m], ev) IN
       /\ eng' = [eng EXCEPT ![m] = s1]
       /\ net' = [net EXCEPT ![Dir(n)] = Tail(@), ![Dir(m)] = @ \o s1.out]
       /\ got' = [got EXCEPT ![m] = @ \o Delivered(s1)]
    /\ UNCHANGED budget

\* the connection is cut: whatever is still in flight is lost, both sides see a disconnect
Cut == /\ budget.cuts > 0 /\ (eng["A"].conn \/ eng["B"].conn)
       /\ LET a == Step(eng["A"], [k |-> "Disconnected"])
              b == Step(eng["B"], [k |-> "Disconnected"]) IN
          /\ eng' = [A |-> a, B |-> b]
          /\ got' = [A |-> got["A"] \o Delivered(a), B |-> got["B"] \o Delivered(b)]
       /\ net' = [AB |-> <<>>, BA |-> <<>>]
       /\ budget' = [budget EXCEPT !.cuts = @ - 1]

Reconnect == /\ ~eng["A"].conn /\ ~eng["B"].conn
             /\ ~eng["A"].stopped /\ ~eng["B"].stopped
             /\ LET b == Step(eng["B"], [k |-> "Connect"])
                    a == Step(eng["A"], [k |-> "Connect"]) IN
                /\ eng' = [A |-> a, B |-> b]
                /\ net' = [AB |-> a.out, BA |-> b.out]
             /\ UNCHANGED <<got, budget>>

Timer(n, e) == /\ budget.timers > 0 /\ eng[n].conn
               /\ Len(net[Dir(n)]) < MaxFlight
               /\ Apply(n, [k |-> "Timeout", e |-> e])
               /\ budget' = [budget EXCEPT !.timers = @ - 1]

\* an engine is discarded and recreated on its persistent store (counters and stored messages survive)
Restart(n) == /\ budget.restarts > 0
              /\ eng' = [eng EXCEPT ![n] = NewEngine(CfgOf(n), eng[n].nIn, eng[n].nOut, eng[n].sent),
                                    ![Other(n)] = Step(eng[Other(n)], [k |-> "Disconnected"])]
              /\ net' = [AB |-> <<>>, BA |-> <<>>]
              /\ got' = [got EXCEPT ![Other(n)] = @ \o Delivered(Step(eng[Other(n)], [k |-> "Disconnected"]))]
              /\ budget' = [budget EXCEPT !.restarts = @ - 1]

Init == /\ eng = [n \in Nodes |-> NewEngine(CfgOf(n), 1, 1, <<>>)]
        /\ net = [AB |-> <<>>, BA |-> <<>>]
        /\ got = [n \in Nodes |-> <<>>]
        /\ budget = [sends |-> MaxSends, cuts |-> MaxCuts, restarts |-> MaxRestarts, timers |-> MaxTimers]

Step1 == \/ \E n \in Nodes : AppSend(n) \/ Deliver(n) \/ Restart(n)
         \/ \E n \in Nodes, e \in {"NeedHeartbeat", "PeerTimeout"} : Timer(n, e)
         \/ Cut \/ Reconnect
Next == Step1
Spec == Init /\ [][Next]_vars

\* ---------------------------------------------------------------- C05
\* what a side submitted: the numbers of its stored application messages, ascending
RECURSIVE AppSeqs(_, _, _)
AppSeqs(sent, n, hi) == IF n > hi THEN <<>>
                        ELSE (IF n \in DOMAIN sent /\ sent[n].k = "app" THEN <<n>> ELSE <<>>) \o AppSeqs(sent, n + 1, hi)
Submitted(s) == AppSeqs(s.sent, 1, s.nOut)
IsPrefixOf(a, b) == Len(a) <= Len(b) /\ \A i \in DOMAIN a : a[i] = b[i]

\* safety: in order, at most once, nothing that was not sent
C05_Safety == \A n \in Nodes : IsPrefixOf(got[n], Submitted(eng[Other(n)]))

\* ---------------------------------------------------------------- deterministic settling (the link stays up)
RECURSIVE Settle(_, _)
\* deliver everything in flight, alternating directions, at most `fuel' deliveries
DeliverOne(p, n) ==
    LET o == Head(p.net[Dir(n)])
        m == Other(n)
        ev == IF o.t = "CLOSE" THEN [k |-> "Disconnected"] ELSE [k |-> "Incoming", m |-> Conv(o)]
        s1 == Step(p.eng[m], ev) IN
    [eng |-> [p.eng EXCEPT ![m] = s1],
     net |-> [p.net EXCEPT ![Dir(n)] = Tail(@), ![Dir(m)] = @ \o s1.out],
     got |-> [p.got EXCEPT ![m] = @ \o Delivered(s1)]]
Settle(p, fuel) ==
    IF fuel = 0 THEN p
    ELSE IF p.net["AB"] # <<>> THEN Settle(DeliverOne(p, "A"), fuel - 1)
    ELSE IF p.net["BA"] # <<>> THEN Settle(DeliverOne(p, "B"), fuel - 1)
    ELSE p

At(p, n, ev) == LET s1 == Step(p.eng[n], ev) IN
                [eng |-> [p.eng EXCEPT ![n] = s1], net |-> [p.net EXCEPT ![Dir(n)] = @ \o s1.out],
                 got |-> [p.got EXCEPT ![n] = @ \o Delivered(s1)]]

ReconnectIfDown(p) ==
    IF ~p.eng["A"].conn /\ ~p.eng["B"].conn
    THEN LET q == [p EXCEPT !.net = [AB |-> <<>>, BA |-> <<>>]] IN At(At(q, "B", [k |-> "Connect"]), "A", [k |-> "Connect"])
    ELSE p

Round(p) == LET p1 == Settle(ReconnectIfDown(p), 60)
                p2 == Settle(At(At(p1, "A", [k |-> "Flush"]), "B", [k |-> "Flush"]), 60)
                p3 == Settle(At(p2, "A", [k |-> "Timeout", e |-> "NeedHeartbeat"]), 60)
            IN Settle(At(p3, "B", [k |-> "Timeout", e |-> "NeedHeartbeat"]), 60)

RECURSIVE Rounds(_, _)
Rounds(p, k) == IF k = 0 THEN p ELSE Rounds(Round(p), k - 1)
Stabilize(k) == Rounds([eng |-> eng, net |-> net, got |-> got], k)

AllDelivered(p) == \A n \in Nodes : p.got[n] = Submitted(p.eng[Other(n)])
C05_Completion == AllDelivered(Stabilize(4))

View == <<[n \in Nodes |-> [eng[n] EXCEPT !.out = <<>>, !.cb = <<>>, !.tm = <<>>]], net, got, budget>>
=============================================================================
