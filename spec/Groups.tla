------------------------------- MODULE Groups -------------------------------
(***************************************************************************)
(* Repeating groups on the wire (repeating_group.go, message.go).          *)
(*   template : [tag, members]   members: sequence of items                *)
(*   item     : [k |-> "f", tag, members |-> <<>>] | [k |-> "g", tag, members]*)
(*   instance : sequence of entries; an entry is a sequence of elements in *)
(*              template order, the first template member (the delimiter)  *)
(*              always present:                                            *)
(*   element  : [k |-> "f", tag, v, inst |-> <<>>] | [k |-> "g", tag, v |-> "", inst]*)
(* Flatten gives the fields a group puts on the wire (count field, then    *)
(* the entries in template order); Regroup reads such a field sequence     *)
(* back through the template, delimiter-driven.  C13: Regroup after        *)
(* Flatten is the identity, through the real serialiser and parser, with   *)
(* and without the dictionary that defines the group, and the fields that  *)
(* follow the group are still body fields.                                 *)
(***************************************************************************)
EXTENDS Integers, Sequences, FiniteSets, TLC

CountText(n) == ToString(n)      \* the decimal text of the count (TLC!ToString)

RECURSIVE FlattenInst(_, _), FlattenEntry(_), FlattenEntries(_)
FlattenInst(tag, inst) == <<<<tag, CountText(Len(inst))>>>> \o FlattenEntries(inst)
FlattenEntries(es) == IF es = <<>> THEN <<>> ELSE FlattenEntry(Head(es)) \o FlattenEntries(Tail(es))
FlattenEntry(e) ==
    IF e = <<>> THEN <<>>
    ELSE LET x == Head(e) IN
         (IF x.k = "g" THEN FlattenInst(x.tag, x.inst) ELSE <<<<x.tag, x.v>>>>) \o FlattenEntry(Tail(e))

\* ---- reading back: [inst, rest] from a field sequence that starts with the count field
MemberTags(members) == {members[i].tag : i \in DOMAIN members}
ItemOf(members, tag) == members[CHOOSE i \in DOMAIN members : members[i].tag = tag]

RECURSIVE ReadGroup(_, _), ReadEntries(_, _, _, _)
\* reads fields while they belong to the template; a delimiter starts a new entry
ReadEntries(members, fs, done, cur) ==
    IF fs = <<>> \/ Head(fs)[1] \notin MemberTags(members)
    THEN [inst |-> IF cur = <<>> THEN done ELSE Append(done, cur), rest |-> fs]
    ELSE LET f == Head(fs)
             it == ItemOf(members, f[1])
             newEntry == f[1] = members[1].tag
             done1 == IF newEntry /\ cur # <<>> THEN Append(done, cur) ELSE done
             cur1 == IF newEntry THEN <<>> ELSE cur
         IN IF it.k = "g"
            THEN LET r == ReadGroup(it.members, fs) IN
                 ReadEntries(members, r.rest, done1, Append(cur1, [k |-> "g", tag |-> f[1], v |-> "", inst |-> r.inst]))
            ELSE ReadEntries(members, Tail(fs), done1, Append(cur1, [k |-> "f", tag |-> f[1], v |-> f[2], inst |-> <<>>]))
ReadGroup(members, fs) == ReadEntries(members, Tail(fs), <<>>, <<>>)

Regroup(template, fs) == ReadGroup(template.members, fs)

\* ---- what C13 demands of one observation
\* case = [template, inst, after (fields following the group in the body: <<tag, v>>)]
\* obs  = [parsed, wire (fields of the built message in order), back (instance read back), backErr, afterFound (sequence of BOOLEAN)]
IsInfix(a, b) == \E i \in 0..(Len(b) - Len(a)) : \A j \in 1..Len(a) : b[i + j] = a[j]
Fails(c, obs) ==
    {x \in {"written", "parses", "readBack", "fieldsAfterGroup"} :
       ~ CASE x = "written" -> IsInfix(FlattenInst(c.template.tag, c.inst), obs.wire)       \* count, then entries in template order
           [] x = "parses" -> obs.parsed
           [] x = "readBack" -> obs.parsed => (~obs.backErr /\ obs.back = c.inst)
           [] x = "fieldsAfterGroup" -> obs.parsed => \A i \in DOMAIN obs.afterFound : obs.afterFound[i]}

\* ------------------------------------------------------------------ bounded model (M)
CONSTANTS Cases
VARIABLES d
Init == d \in DOMAIN Cases
Next == UNCHANGED d
Spec == Init /\ [][Next]_d
RoundTrip == LET c == Cases[d]
                 r == Regroup(c.template, FlattenInst(c.template.tag, c.inst) \o c.after)
             IN r.inst = c.inst /\ r.rest = c.after
=============================================================================
