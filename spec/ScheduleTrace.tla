--------------------------- MODULE ScheduleTrace ---------------------------
(***************************************************************************)
(* Trace validation for C18: every line of trace.ndjson is what the real   *)
(* TimeRange answered for one configuration and one instant t1             *)
(*   in1 = IsInRange(t1), and for each t2 of t2s: in2, same =              *)
(*   IsInRange(t2), IsInSameRange(t1, t2)                                  *)
(* with instants given on the civil timeline of the configured zone.       *)
(* A disagreement with Schedule!InRange / SameRange is printed.            *)
(***************************************************************************)
EXTENDS Schedule, Json

VARIABLE l
Trace == ndJsonDeserialize("trace.ndjson")

C(row) == [kind |-> row.cfg.kind, s |-> row.cfg.s, e |-> row.cfg.e,
           days |-> {row.cfg.days[i] : i \in DOMAIN row.cfg.days}, sd |-> row.cfg.sd, ed |-> row.cfg.ed]

Bad(row) ==
    LET c == C(row) IN
    {<<"in", row.t1>> : x \in {1} \cap (IF ~NearEdge(c, row.t1) /\ InRange(c, row.t1) # row.in1 THEN {1} ELSE {})}
    \cup {<<"same", row.t1, row.t2s[i]>> : i \in {j \in DOMAIN row.t2s :
              /\ ~NearEdge(c, row.t1) /\ ~NearEdge(c, row.t2s[j])
              /\ SameRange(c, row.t1, row.t2s[j]) # row.same[j]}}
    \cup {<<"in", row.t2s[i]>> : i \in {j \in DOMAIN row.t2s :
              ~NearEdge(c, row.t2s[j]) /\ InRange(c, row.t2s[j]) # row.in2[j]}}

TraceInit == l = 1 /\ cfg = [kind |-> "daily", s |-> 0, e |-> 0, days |-> {}, sd |-> 0, ed |-> 0] /\ a = 0 /\ b = 0 /\ d = 0
TraceStep ==
    /\ l <= Len(Trace)
    /\ l' = l + 1
    /\ UNCHANGED <<cfg, a, b, d>>
    /\ LET bad == Bad(Trace[l]) IN IF bad = {} THEN TRUE ELSE PrintT(<<"MISMATCH", l, bad>>)
TraceSpec == TraceInit /\ [][TraceStep]_<<l, cfg, a, b, d>>
AllConsumed == TLCGet("stats").diameter = Len(Trace) + 1
=============================================================================
