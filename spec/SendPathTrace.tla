--------------------------- MODULE SendPathTrace ---------------------------
(***************************************************************************)
(* C02 on executions recorded from the real send path (vsend driver): real *)
(* sender goroutines call SendToTarget while the real run loop answers     *)
(* TestRequests, rejects bad messages and replays for ResendRequests.      *)
(* Each line is one run:                                                   *)
(*   wire    : messages in the order they left the outbound channel        *)
(*             [n, pd, app, persisted, stored]  (persisted: the very bytes *)
(*             had been handed to the store before the message was         *)
(*             received from the channel; stored: the store returns them   *)
(*             under n when the epoch ends)                                *)
(*   saved   : numbers given to SaveMessageAndIncr, in call order          *)
(*   windows : [from, to] positions of wire between a ResendRequest and    *)
(*             the Heartbeat answering the TestRequest sent right after it *)
(* The clauses are SendPath.tla's invariants, over observations.           *)
(***************************************************************************)
EXTENDS Integers, Sequences, FiniteSets, TLC, Json

VARIABLE l
Trace == ndJsonDeserialize("trace.ndjson")

RECURSIVE Increasing(_, _, _), NoLiveInside(_, _, _, _), CountLiveApp(_, _, _)
\* first-time messages carry increasing numbers
Increasing(w, i, last) ==
    IF i > Len(w) THEN TRUE
    ELSE IF w[i].pd THEN Increasing(w, i + 1, last)
    ELSE w[i].n > last /\ Increasing(w, i + 1, w[i].n)
\* phase 0: no replayed message yet, 1: inside the replayed run, 2: a first-time message after it
NoLiveInside(w, i, to, phase) ==
    IF i > to THEN TRUE
    ELSE IF w[i].pd THEN (phase # 2 /\ NoLiveInside(w, i + 1, to, 1))
    ELSE NoLiveInside(w, i + 1, to, IF phase = 0 THEN 0 ELSE 2)
CountLiveApp(w, i, acc) ==
    IF i > Len(w) THEN acc ELSE CountLiveApp(w, i + 1, IF ~w[i].pd /\ w[i].app THEN acc + 1 ELSE acc)

LiveNumbers(w) == {w[i].n : i \in {j \in DOMAIN w : ~w[j].pd}}

Fails(r) ==
    {c \in {"consecutive", "storeNext", "wireOrder", "allTransmitted", "persistBeforeWire", "retrievable", "noLiveInsideReplay"} :
       ~ CASE c = "consecutive" -> ~r.dupSave /\ \A i \in DOMAIN r.saved : r.saved[i] = i
           [] c = "storeNext" -> r.nextOut = Len(r.saved) + 1
           [] c = "wireOrder" -> Increasing(r.wire, 1, 0)
           [] c = "allTransmitted" -> /\ LiveNumbers(r.wire) = 1..Len(r.saved)
                                      /\ CountLiveApp(r.wire, 1, 0) = r.submitted
           [] c = "persistBeforeWire" -> \A i \in DOMAIN r.wire : ~r.wire[i].pd => r.wire[i].persisted
           \* ... retrievable from the message store under n: asked of the store itself when the epoch ends
           [] c = "retrievable" -> \A i \in DOMAIN r.wire : ~r.wire[i].pd => r.wire[i].stored
           [] c = "noLiveInsideReplay" -> \A k \in DOMAIN r.windows : NoLiveInside(r.wire, r.windows[k][1], r.windows[k][2], 0)}

TraceInit == l = 1
TraceStep == /\ l <= Len(Trace) /\ l' = l + 1
             /\ LET bad == Fails(Trace[l]) IN IF bad = {} THEN TRUE ELSE PrintT(<<"MISMATCH", l, bad>>)
TraceSpec == TraceInit /\ [][TraceStep]_l
AllConsumed == TLCGet("stats").diameter = Len(Trace) + 1
=============================================================================
