---------------------------- MODULE FramerTrace ----------------------------
(***************************************************************************)
(* Trace validation for C12.  Each line: one byte stream and the DISTINCT  *)
(* results the real framer produced for it over all the chunkings and      *)
(* buffer sizes the driver tried:                                          *)
(*   {id, stream, results: [{frames, err, witness}], msgs (optional)}      *)
(* Accepted iff there is exactly one distinct result and it is             *)
(* Framer!Frames(stream); when the stream was built from well-formed       *)
(* messages separated by junk without a BeginString marker (msgs given),   *)
(* the frames must be exactly those messages.                              *)
(***************************************************************************)
EXTENDS Framer, Json

VARIABLE l
Trace == ndJsonDeserialize("trace.ndjson")

Bad(row) ==
    LET f == Frames(row.stream) IN
    {<<"chunkDependent", Len(row.results)>> : x \in (IF Len(row.results) # 1 THEN {1} ELSE {})}
    \cup {<<"notReference", i, f.err, Len(f.frames)>> : i \in {j \in DOMAIN row.results :
              row.results[j].frames # f.frames \/ row.results[j].err # f.err}}
    \cup {<<"notTheMessages">> : x \in (IF "msgs" \in DOMAIN row /\ f.frames # row.msgs THEN {1} ELSE {})}

TraceInit == l = 1 /\ stream = <<>> /\ p = 0
TraceStep == /\ l <= Len(Trace) /\ l' = l + 1 /\ UNCHANGED <<stream, p>>
             /\ LET bad == Bad(Trace[l]) IN IF bad = {} THEN TRUE ELSE PrintT(<<"MISMATCH", l, bad>>)
TraceSpec == TraceInit /\ [][TraceStep]_<<l, stream, p>>
AllConsumed == TLCGet("stats").diameter = Len(Trace) + 1
=============================================================================
