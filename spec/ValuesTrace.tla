---------------------------- MODULE ValuesTrace ----------------------------
(***************************************************************************)
(* Trace validation for C14: each line is one Read or Write of a real      *)
(* FieldValue implementation (fix_int.go, fix_float.go, fix_boolean.go,    *)
(* fix_utc_timestamp.go, fix_decimal.go, fix_string.go, fix_bytes.go)      *)
(* judged against the grammars, denotations and printers of Values.tla.    *)
(***************************************************************************)
EXTENDS Values, Json

VARIABLE l
Trace == ndJsonDeserialize("trace.ndjson")

ReadBad(r) ==
    LET cls == Class(r.ty, r.t) IN
    CASE cls = "reject" -> IF r.ok THEN {"acceptedOutsideGrammar"} ELSE {}
      [] cls = "unspec" ->
           \* an integer text too long for the model's arithmetic is judged as a text: if the implementation
           \* accepts it, the value it holds must print as the very same digits (no silent wrap-around);
           \* refusing it (out of range) is fine
           IF r.ty = "int" /\ AllDigits(IntBody(r.t)) /\ IntBody(r.t) # <<>> /\ IntBody(r.t)[1] # 48 /\ r.ok /\ r.wb # r.t
           THEN {"wrongValue"} ELSE {}
      [] cls = "accept" ->
           IF ~r.ok THEN {"rejectedGrammarText"}
           ELSE \* the exact value, and a canonical text written back unchanged (the receiver was not fresh)
                CASE r.ty = "int" -> (IF r.iv = IntVal(r.t) THEN {} ELSE {"wrongValue"})
                                     \cup (IF IntText(IntVal(r.t)) = r.t /\ r.wb # r.t THEN {"writeBack"} ELSE {})
                  [] r.ty = "bool" -> (IF r.bv = BoolVal(r.t) THEN {} ELSE {"wrongValue"})
                                      \cup (IF r.wb # r.t THEN {"writeBack"} ELSE {})
                  [] r.ty = "float" -> IF r.fv = FloatVal(r.t) THEN {} ELSE {"wrongValue"}
                  [] r.ty = "ts" -> (IF r.ts = TsFields(r.t) THEN {} ELSE {"wrongValue"})
                                    \cup (IF r.wb # r.t THEN {"writeBack"} ELSE {})

WriteBad(r) ==
    CASE r.ty = "int" -> {x \in {"notCanonical"} : r.t # IntText(r.iv)} \cup {x \in {"roundTrip"} : ~r.ok \/ r.back # r.iv}
      [] r.ty = "bool" -> {x \in {"notCanonical"} : r.t # BoolText(r.bv)} \cup {x \in {"roundTrip"} : ~r.ok \/ r.back # r.bv}
      [] r.ty = "ts" -> {x \in {"notCanonical"} : r.t # TsText(r.ts, r.prec)}
                        \cup {x \in {"roundTrip"} : ~r.ok \/ r.back # TsTrunc(r.ts, r.prec)}
      [] r.ty = "float" -> {x \in {"notCanonical"} : FloatClass(r.t) = "reject" \/ (FloatClass(r.t) = "accept" /\ FloatVal(r.t) # r.fv)}
                           \cup {x \in {"roundTrip"} : ~r.ok \/ ~r.same}
      [] r.ty = "dec" -> {x \in {"roundTrip"} : ~r.ok \/ (r.exact /\ ~r.same)}
      [] r.ty = "str" -> {x \in {"roundTrip"} : ~r.ok \/ ~r.same \/ r.t # r.raw}

Bad(r) == IF r.op = "read" THEN ReadBad(r) ELSE WriteBad(r)

TraceInit == l = 1 /\ k = 0
TraceStep == /\ l <= Len(Trace) /\ l' = l + 1 /\ UNCHANGED k
             /\ LET bad == Bad(Trace[l]) IN IF bad = {} THEN TRUE ELSE PrintT(<<"MISMATCH", l, bad>>)
TraceSpec == TraceInit /\ [][TraceStep]_<<l, k>>
AllConsumed == TLCGet("stats").diameter = Len(Trace) + 1
=============================================================================
