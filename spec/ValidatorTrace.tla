--------------------------- MODULE ValidatorTrace ---------------------------
(* Trace validation for C15: docs.json = specification documents (independent XML walk); each line of trace.ndjson  *)
(* = one generated message, its claimed single defect, the validator settings and what Validator.Validate returned. *)
EXTENDS Validator, Json
VARIABLE l
AllDocs == JsonDeserialize("docs.json")
Trace == ndJsonDeserialize("trace.ndjson")
Row(r) == [r EXCEPT !.fields = [i \in DOMAIN r.fields |-> <<r.fields[i][1], r.fields[i][2]>>]]
TraceInit == l = 1 /\ d = 1
TraceStep == /\ l <= Len(Trace) /\ l' = l + 1 /\ UNCHANGED d
             /\ LET r == Row(Trace[l])
                    sane == Sane(AllDocs[r.tdoc], AllDocs[r.adoc], r)
                    bad == Fails(r)
                IN /\ IF sane THEN TRUE ELSE PrintT(<<"GENERATOR", l, Struct(AllDocs[r.tdoc], AllDocs[r.adoc], r.msgtype, r.fields)>>)
                   /\ IF bad = {} \/ ~sane THEN TRUE ELSE PrintT(<<"MISMATCH", l, bad>>)
TraceSpec == TraceInit /\ [][TraceStep]_<<l, d>>
AllConsumed == TLCGet("stats").diameter = Len(Trace) + 1
=============================================================================
