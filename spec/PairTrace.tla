----------------------------- MODULE PairTrace -----------------------------
(***************************************************************************)
(* Trace validation for C05: each line is one step of a Pair.tla behaviour *)
(* executed on two real sessions (vpair driver) with what both             *)
(* applications have received so far (gotA, gotB: MsgSeqNums handed to     *)
(* FromApp) and what each side has accepted for sending (subA, subB: the   *)
(* numbers of the application messages in its store).                      *)
(*  - monitors: C05 safety on every line, completion on "Settled" lines;   *)
(*  - conformance: the same event is applied to the model's two engines    *)
(*    and the projected states compared (printed as DIVERGE).              *)
(***************************************************************************)
EXTENDS Pair, Json

VARIABLE l
Trace == ndJsonDeserialize("trace.ndjson")

Fresh == [eng |-> [n \in Nodes |-> NewEngine(CfgOf(n), 1, 1, <<>>)], net |-> [AB |-> <<>>, BA |-> <<>>], got |-> [n \in Nodes |-> <<>>]]
Cur == [eng |-> eng, net |-> net, got |-> got]

\* the model's version of one driver event
Exec(p, ev) ==
    CASE ev.k = "AppSend" -> At(At(p, ev.n, [k |-> "Send", a |-> [x |-> "b", dns |-> FALSE, ref |-> FALSE]]), ev.n, [k |-> "Flush"])
      [] ev.k = "Deliver" -> IF p.net[Dir(ev.n)] = <<>> THEN p ELSE DeliverOne(p, ev.n)
      [] ev.k = "Cut" /\ ~p.eng["A"].conn /\ ~p.eng["B"].conn -> p
      [] ev.k = "Reconnect" /\ (p.eng["A"].conn \/ p.eng["B"].conn) -> p
      [] ev.k = "Cut" -> [At(At([p EXCEPT !.net = [AB |-> <<>>, BA |-> <<>>]], "A", [k |-> "Disconnected"]), "B", [k |-> "Disconnected"])
                            EXCEPT !.net = [AB |-> <<>>, BA |-> <<>>]]
      [] ev.k = "Reconnect" -> At(At([p EXCEPT !.net = [AB |-> <<>>, BA |-> <<>>]], "B", [k |-> "Connect"]), "A", [k |-> "Connect"])
      [] ev.k = "Timer" -> At(p, ev.n, [k |-> "Timeout", e |-> ev.e])
      [] ev.k = "Flush" -> At(p, ev.n, [k |-> "Flush"])
      [] ev.k = "Restart" -> [At([p EXCEPT !.eng[ev.n] = NewEngine(CfgOf(ev.n), p.eng[ev.n].nIn, p.eng[ev.n].nOut, p.eng[ev.n].sent)],
                                  Other(ev.n), [k |-> "Disconnected"]) EXCEPT !.net = [AB |-> <<>>, BA |-> <<>>]]
      [] OTHER -> p

Proj(s) == [st |-> StateName(s.cur), nIn |-> s.nIn, nOut |-> s.nOut, conn |-> s.conn, q |-> Len(s.q)]

Monitors(r) ==
    {c \in {"safety", "completion"} :
       ~ CASE c = "safety" -> IsPrefixOf(r.gotA, r.subB) /\ IsPrefixOf(r.gotB, r.subA)
           [] c = "completion" -> r.ev.k = "Settled" => (r.gotA = r.subB /\ r.gotB = r.subA)}

TraceInit == l = 1 /\ eng = Fresh.eng /\ net = Fresh.net /\ got = Fresh.got
             /\ budget = [sends |-> 0, cuts |-> 0, restarts |-> 0, timers |-> 0]
TraceStep ==
    /\ l <= Len(Trace) /\ l' = l + 1 /\ UNCHANGED budget
    /\ LET r == Trace[l] IN
       IF r.ev.k \in {"TraceReset", "Panic"} THEN eng' = Fresh.eng /\ net' = Fresh.net /\ got' = Fresh.got
       ELSE LET p == Exec(Cur, r.ev)
                bad == Monitors(r)
                same == /\ Proj(p.eng["A"]) = r.a /\ Proj(p.eng["B"]) = r.b
                        /\ p.got["A"] = r.gotA /\ p.got["B"] = r.gotB
                        /\ Len(p.net["AB"]) = r.flightAB /\ Len(p.net["BA"]) = r.flightBA
            IN /\ eng' = p.eng /\ net' = p.net /\ got' = p.got
               /\ IF bad = {} THEN TRUE ELSE PrintT(<<"VIOL", l, bad>>)
               /\ IF same THEN TRUE ELSE PrintT(<<"DIVERGE", l, [a |-> Proj(p.eng["A"]), b |-> Proj(p.eng["B"]), gotA |-> p.got["A"], gotB |-> p.got["B"],
                                                               ab |-> Len(p.net["AB"]), ba |-> Len(p.net["BA"])]>>)
TraceSpec == TraceInit /\ [][TraceStep]_<<vars, l>>
AllConsumed == TLCGet("stats").diameter = Len(Trace) + 1
=============================================================================
