-------------------------------- MODULE Wire --------------------------------
(***************************************************************************)
(* A FIX message on the wire as a sequence of fields <<tag, value>> and    *)
(* what parsing must expose (C11, message.go).                             *)
(*   lead : what the first three fields are ("ok" = 8, 9, 35 in order)     *)
(*   delta: declared BodyLength minus the actual body length               *)
(*   dict : "none" | "app" | "fixt"  (a transport dictionary adds header   *)
(*          and trailer fields beyond the hard-coded ones)                 *)
(* Accept(c) says whether parsing must succeed; Sec(c, tag) in which       *)
(* section a field must be found.                                          *)
(***************************************************************************)
EXTENDS Integers, Sequences, FiniteSets, TLC

HardHeader == {8, 9, 35, 49, 56, 115, 128, 90, 34, 50, 142, 57, 143, 116, 144, 129, 145, 43, 97, 52, 122, 212, 213,
               347, 369, 370, 1128, 1129, 627, 1156, 91, 628, 629, 630}
HardTrailer == {93, 89, 10}
DictHeader == {5001}          \* declared only by the (synthetic) transport dictionary
DictTrailer == {5002}

Sec(dict, tag) == IF tag \in HardHeader \/ (dict = "fixt" /\ tag \in DictHeader) THEN "h"
                  ELSE IF tag \in HardTrailer \/ (dict = "fixt" /\ tag \in DictTrailer) THEN "t"
                  ELSE "b"

\* c = [fields, lead, delta, dict, xml, gidx]
Accept(c) == c.lead = "ok" /\ c.delta = 0

\* c.gidx: positions of the member fields of a repeating group the application dictionary defines.  With that
\* dictionary in use they are reached through the group (C13), not as fields of the body itself.
Grouped(c, j) == c.dict # "none" /\ j \in {c.gidx[k] : k \in DOMAIN c.gidx}
InSec(c, s) == {c.fields[i] : i \in {j \in DOMAIN c.fields : Sec(c.dict, c.fields[j][1]) = s /\ ~Grouped(c, j)}}
ToSet(q) == {q[i] : i \in DOMAIN q}

\* obs = [ok, hdr, body, trl, order, bytesSame]
Fails(c, obs) ==
    {x \in {"accepts", "rejects", "sections", "order", "rawBytes"} :
       ~ CASE x = "accepts" -> Accept(c) => obs.ok
           [] x = "rejects" -> ~Accept(c) => ~obs.ok
           [] x = "sections" -> (Accept(c) /\ obs.ok) =>
                  (ToSet(obs.hdr) = InSec(c, "h") /\ ToSet(obs.body) = InSec(c, "b") /\ ToSet(obs.trl) = InSec(c, "t"))
              \* (the parser sizes its field array by counting SOH bytes; an SOH inside XMLData leaves
              \*  unused zero entries at the end, which are not fields)
           [] x = "order" -> (Accept(c) /\ obs.ok) => SelectSeq(obs.order, LAMBDA p : p[1] # 0) = c.fields
           [] x = "rawBytes" -> (Accept(c) /\ obs.ok) => obs.bytesSame}

\* ------------------------------------------------------------------ bounded model (M): the
\* classification is a partition and the accept rule is what the statement says
CONSTANTS TagsM, Dicts
VARIABLES t, d
Init == t \in TagsM /\ d \in Dicts
Next == UNCHANGED <<t, d>>
Spec == Init /\ [][Next]_<<t, d>>
OneSection == Sec(d, t) \in {"h", "b", "t"}
DictOnlyMatters == (t \in DictHeader \cup DictTrailer) => (Sec("none", t) = "b" /\ Sec("app", t) = "b" /\ Sec("fixt", t) # "b")
=============================================================================
