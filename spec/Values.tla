------------------------------- MODULE Values -------------------------------
(***************************************************************************)
(* The lexical grammars of the FIX value types that C14 names, over texts  *)
(* given as sequences of character codes, with exact denotations and the   *)
(* canonical printers.  Class(type, t) is "accept", "reject" or "unspec"   *)
(* (texts on which the FIX grammar is silent never produce a verdict).     *)
(*   int       : optional '-' then digits (leading zeros allowed)          *)
(*   float     : optional '-', digits with an optional decimal point       *)
(*               ("23." and "23.0" are FIX; ".5" and "-.5" are unspecified)*)
(*   boolean   : "Y" | "N"                                                 *)
(*   timestamp : YYYYMMDD-HH:MM:SS[.sss|.ssssss|.sssssssss], calendar-valid*)
(***************************************************************************)
EXTENDS Integers, Sequences, FiniteSets, TLC

IsDigit(c) == c >= 48 /\ c <= 57
AllDigits(t) == t # <<>> /\ \A i \in DOMAIN t : IsDigit(t[i])

RECURSIVE Num(_, _)
Num(d, acc) == IF d = <<>> THEN acc ELSE Num(Tail(d), acc * 10 + (Head(d) - 48))
NumOf(d) == Num(d, 0)

\* ------------------------------------------------------------------ int
IntBody(t) == IF t # <<>> /\ t[1] = 45 THEN Tail(t) ELSE t
IntClass(t) == IF ~AllDigits(IntBody(t)) THEN "reject"
               ELSE IF Len(IntBody(t)) > 9 THEN "unspec"         \* TLC integers are 32-bit: longer texts are not judged
               ELSE "accept"
IntVal(t) == IF t[1] = 45 THEN 0 - NumOf(IntBody(t)) ELSE NumOf(t)

RECURSIVE DigitsOf(_)
DigitsOf(n) == IF n < 10 THEN <<48 + n>> ELSE Append(DigitsOf(n \div 10), 48 + (n % 10))
IntText(v) == IF v < 0 THEN <<45>> \o DigitsOf(0 - v) ELSE DigitsOf(v)

\* ------------------------------------------------------------------ boolean
BoolClass(t) == IF t = <<89>> \/ t = <<78>> THEN "accept" ELSE "reject"
BoolVal(t) == t = <<89>>
BoolText(b) == IF b THEN <<89>> ELSE <<78>>

\* ------------------------------------------------------------------ float
Dots(t) == {i \in DOMAIN t : t[i] = 46}
FloatClass(t) ==
    LET b == IntBody(t)
        dots == Dots(b)
    IN IF b = <<>> THEN "reject"
       ELSE IF \E i \in DOMAIN b : ~IsDigit(b[i]) /\ b[i] # 46 THEN "reject"
       ELSE IF Cardinality(dots) > 1 THEN "reject"
       ELSE IF Len(b) = 1 /\ dots # {} THEN "reject"                 \* "." and "-."
       ELSE IF dots # {} /\ b[1] = 46 THEN "unspec"                   \* ".5": no integer digits
       ELSE IF Len(b) - Cardinality(dots) > 9 THEN "unspec"           \* (32-bit integers in TLC)
       ELSE "accept"

\* canonical decimal <<negative, unscaled, scale>>: no trailing zeros after the point, -0 = 0
RECURSIVE Strip(_, _)
Strip(u, sc) == IF sc > 0 /\ u % 10 = 0 THEN Strip(u \div 10, sc - 1) ELSE <<u, sc>>
FloatVal(t) ==
    LET b == IntBody(t)
        dots == Dots(b)
        k == IF dots = {} THEN Len(b) + 1 ELSE CHOOSE i \in dots : TRUE
        ip == SubSeq(b, 1, k - 1)
        fp == IF k > Len(b) THEN <<>> ELSE SubSeq(b, k + 1, Len(b))
        u == Num(fp, Num(ip, 0))
        st == Strip(u, Len(fp))
    IN <<(t[1] = 45) /\ st[1] # 0, st[1], st[2]>>

\* ------------------------------------------------------------------ UTC timestamp
Leap(y) == (y % 4 = 0 /\ y % 100 # 0) \/ y % 400 = 0
DaysIn(y, m) == CASE m \in {1, 3, 5, 7, 8, 10, 12} -> 31
                  [] m \in {4, 6, 9, 11} -> 30
                  [] m = 2 -> IF Leap(y) THEN 29 ELSE 28
                  [] OTHER -> 0
TsShape(t) ==
    /\ Len(t) \in {17, 21, 24, 27}
    /\ \A i \in {1, 2, 3, 4, 5, 6, 7, 8, 10, 11, 13, 14, 16, 17} : IsDigit(t[i])
    /\ t[9] = 45 /\ t[12] = 58 /\ t[15] = 58
    /\ Len(t) > 17 => (t[18] = 46 /\ \A i \in 19..Len(t) : IsDigit(t[i]))
TsFields(t) == [y |-> NumOf(SubSeq(t, 1, 4)), mo |-> NumOf(SubSeq(t, 5, 6)), d |-> NumOf(SubSeq(t, 7, 8)),
                h |-> NumOf(SubSeq(t, 10, 11)), mi |-> NumOf(SubSeq(t, 13, 14)), s |-> NumOf(SubSeq(t, 16, 17)),
                ns |-> IF Len(t) = 17 THEN 0
                       ELSE NumOf(SubSeq(t, 19, Len(t))) * (CASE Len(t) = 21 -> 1000000 [] Len(t) = 24 -> 1000 [] OTHER -> 1)]
TsClass(t) ==
    IF ~TsShape(t) THEN "reject"
    ELSE LET f == TsFields(t) IN
         IF f.mo < 1 \/ f.mo > 12 \/ f.d < 1 \/ f.d > DaysIn(f.y, f.mo) \/ f.h > 23 \/ f.mi > 59 \/ f.s > 60 THEN "reject"
         ELSE IF f.s = 60 THEN "unspec"                  \* leap second: FIX allows it, many parsers do not
         ELSE IF f.y = 0 THEN "unspec"
         ELSE "accept"

Pad(n, w) == LET d == DigitsOf(n) IN [i \in 1..(w - Len(d)) |-> 48] \o d
\* precision: 0 seconds, 3 millis, 6 micros, 9 nanos (fraction truncated to the precision)
TsText(f, prec) ==
    Pad(f.y, 4) \o Pad(f.mo, 2) \o Pad(f.d, 2) \o <<45>> \o Pad(f.h, 2) \o <<58>> \o Pad(f.mi, 2) \o <<58>> \o Pad(f.s, 2)
    \o (CASE prec = 0 -> <<>>
          [] prec = 3 -> <<46>> \o Pad(f.ns \div 1000000, 3)
          [] prec = 6 -> <<46>> \o Pad(f.ns \div 1000, 6)
          [] prec = 9 -> <<46>> \o Pad(f.ns, 9))
TsTrunc(f, prec) == [f EXCEPT !.ns = CASE prec = 0 -> 0 [] prec = 3 -> (f.ns \div 1000000) * 1000000
                                         [] prec = 6 -> (f.ns \div 1000) * 1000 [] OTHER -> f.ns]

Class(ty, t) == CASE ty = "int" -> IntClass(t) [] ty = "float" -> FloatClass(t)
                  [] ty = "bool" -> BoolClass(t) [] ty = "ts" -> TsClass(t)

\* ------------------------------------------------------------------ bounded model (M): round trips
CONSTANTS IntGrid, TsGrid
VARIABLES k
Init == k = 0
Next == UNCHANGED k
Spec == Init /\ [][Next]_k

IntRoundTrip == \A v \in IntGrid : IntClass(IntText(v)) = "accept" /\ IntVal(IntText(v)) = v
BoolRoundTrip == \A b \in BOOLEAN : BoolClass(BoolText(b)) = "accept" /\ BoolVal(BoolText(b)) = b
TsRoundTrip == \A f \in TsGrid : \A p \in {0, 3, 6, 9} :
                  TsClass(TsText(f, p)) = "accept" /\ TsFields(TsText(f, p)) = TsTrunc(f, p)
                  /\ TsText(TsFields(TsText(f, p)), p) = TsText(f, p)
=============================================================================
