----------------------------- MODULE GroupsTrace -----------------------------
(* Trace validation for C13: each line = one group template, one instance written with the public API into a  *)
(* real message at some position of the body, serialised, parsed (with or without the defining dictionary)    *)
(* and read back through the same template.                                                                  *)
EXTENDS Groups, Json
VARIABLE l
Trace == ndJsonDeserialize("trace.ndjson")
Pairs(q) == [i \in DOMAIN q |-> <<q[i][1], q[i][2]>>]
CaseOf(r) == [template |-> r.template, inst |-> r.inst, after |-> Pairs(r.after)]
ObsOf(r) == [parsed |-> r.obs.parsed, wire |-> Pairs(r.obs.wire), back |-> r.obs.back, backErr |-> r.obs.backErr, afterFound |-> r.obs.afterFound]
TraceInit == l = 1 /\ d = 1
TraceStep == /\ l <= Len(Trace) /\ l' = l + 1 /\ UNCHANGED d
             /\ LET bad == Fails(CaseOf(Trace[l]), ObsOf(Trace[l])) IN IF bad = {} THEN TRUE ELSE PrintT(<<"MISMATCH", l, bad>>)
TraceSpec == TraceInit /\ [][TraceStep]_<<l, d>>
AllConsumed == TLCGet("stats").diameter = Len(Trace) + 1
=============================================================================
