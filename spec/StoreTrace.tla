----------------------------- MODULE StoreTrace -----------------------------
(***************************************************************************)
(* Trace validation for C16: every line of trace.ndjson is one call made   *)
(* on a real MessageStore (memory / file / SQL) by the vstore driver, with *)
(* the value the call returned and the counters read back afterwards.      *)
(* Each line is replayed through Store!Apply; a line whose return value    *)
(* or read-back state differs from the abstract store's is printed as      *)
(*   <<"MISMATCH", line, trace id, step, expected ret, expected post>>     *)
(* and validation continues from the abstract store's own state, so one    *)
(* mismatch does not hide later ones.  For C16 conformance IS the property *)
(* ("returns the same answers as one abstract store").                     *)
(***************************************************************************)
EXTENDS Store, Json

VARIABLE l                     \* next line of the trace

Trace == ndJsonDeserialize("trace.ndjson")

Fresh == [s \in SIDs |-> NewStore(0)]
NoLast == [sid |-> CHOOSE s \in SIDs : TRUE, ev |-> [k |-> "Init"], ret |-> [seen |-> <<>>, err |-> FALSE]]

TraceInit == store = Fresh /\ last = NoLast /\ l = 1

TraceStep ==
    /\ l <= Len(Trace)
    /\ l' = l + 1
    /\ LET row == Trace[l] IN
       IF row.ev.k = "TraceReset"
       THEN store' = Fresh /\ last' = NoLast
       ELSE LET r == Apply(store[row.sid], row.ev) IN
               \* (IF, not \/: inside an action TLC explores both disjuncts)
            /\ IF row.ret.seen = r.ret.seen /\ row.ret.err = r.ret.err /\ row.post = Post(r.st)
               THEN TRUE
               ELSE PrintT(<<"MISMATCH", l, row.tr, row.i, r.ret, Post(r.st)>>)
            /\ store' = [store EXCEPT ![row.sid] = r.st]
            /\ last' = [sid |-> row.sid, ev |-> row.ev, ret |-> r.ret]

TraceSpec == TraceInit /\ [][TraceStep]_<<vars, l>>

\* every line was consumed (otherwise the run is an infrastructure failure, not a verdict)
TraceDone == l = Len(Trace) + 1
AllConsumed == TLCGet("stats").diameter = Len(Trace) + 1
=============================================================================
