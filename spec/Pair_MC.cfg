SPECIFICATION Spec
CONSTANTS
  MaxSends = 2
  MaxCuts = 1
  MaxRestarts = 0
  MaxFlight = 3
  MaxTimers = 0
  Chunk = 0
VIEW View
INVARIANTS C05_Safety C05_Completion
CHECK_DEADLOCK FALSE
