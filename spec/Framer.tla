------------------------------- MODULE Framer -------------------------------
(***************************************************************************)
(* Stream framing (parser.go).  A stream is a sequence of bytes (integers  *)
(* 0..255).  Frames(s) is the whole-stream reference: what a reader that   *)
(* sees all of s at once extracts, written as the search parser.go does    *)
(* (first "8=", then SOH"9=", the digits up to the next SOH, a jump of     *)
(* that many bytes, the next SOH"10=" at or after the jump, the SOH that   *)
(* ends it).  C12: the frames delivered by ReadMessage, and the terminal   *)
(* error, are this function of the content, however the bytes arrive.      *)
(***************************************************************************)
EXTENDS Integers, Sequences, FiniteSets, SequencesExt, TLC

SOH == 1
B8EQ == <<56, 61>>              \* "8="
SOH9EQ == <<1, 57, 61>>         \* SOH "9="
SOH10EQ == <<1, 49, 48, 61>>    \* SOH "10="

MinOf(S) == CHOOSE x \in S : \A y \in S : x <= y

\* least position i >= from at which pat occurs in s (0 if none)
IndexFrom(s, pat, from) ==
    LET n == Len(pat)
        S == {i \in (IF from < 1 THEN 1 ELSE from)..(Len(s) - n + 1) : \A k \in 1..n : s[i + k - 1] = pat[k]}
    IN IF S = {} THEN 0 ELSE MinOf(S)

IsDigit(c) == c >= 48 /\ c <= 57

RECURSIVE Digits(_, _)
Digits(d, acc) == IF d = <<>> THEN acc ELSE Digits(Tail(d), acc * 10 + (Head(d) - 48))

\* atoi of parser.go: optional '-', then digits only; returns [ok, v]
Atoi(d) ==
    LET neg == d # <<>> /\ d[1] = 45
        body == IF neg THEN Tail(d) ELSE d
    IN IF body = <<>> \/ \E i \in DOMAIN body : ~IsDigit(body[i]) THEN [ok |-> FALSE, v |-> 0]
       ELSE [ok |-> TRUE, v |-> IF neg THEN 0 - Digits(body, 0) ELSE Digits(body, 0)]

\* one ReadMessage on the remaining stream r: [k |-> "frame", frame, rest] or [k |-> error class]
\* error classes: "EOF" (needs more bytes than the stream has), "NoLength", "BadLength", "InvalidLength"
ReadOne(r0) ==
    LET i == IndexFrom(r0, B8EQ, 1) IN
    IF i = 0 THEN [k |-> "EOF"]
    ELSE
    LET r == SubSeq(r0, i, Len(r0))
        j == IndexFrom(r, SOH9EQ, 1) IN
    IF j = 0 THEN [k |-> "EOF"]
    ELSE
    LET li == j + 3
        sp == IndexFrom(r, <<SOH>>, li) IN
    IF sp = 0 THEN [k |-> "EOF"]
    ELSE IF sp = li THEN [k |-> "NoLength"]
    ELSE
    LET n == Atoi(SubSeq(r, li, sp - 1)) IN
    IF ~n.ok THEN [k |-> "BadLength"]
    ELSE IF n.v <= 0 THEN [k |-> "InvalidLength"]
    ELSE
    LET m == IndexFrom(r, SOH10EQ, sp + n.v) IN
    IF m = 0 THEN [k |-> "EOF"]
    ELSE
    LET e == IndexFrom(r, <<SOH>>, m + 1) IN
    IF e = 0 THEN [k |-> "EOF"]
    ELSE [k |-> "frame", frame |-> SubSeq(r, 1, e), rest |-> SubSeq(r, e + 1, Len(r))]

RECURSIVE FramesRec(_, _)
FramesRec(r, acc) ==
    LET x == ReadOne(r) IN
    IF x.k = "frame" THEN FramesRec(x.rest, Append(acc, x.frame))
    ELSE [frames |-> acc, err |-> x.k]

Frames(s) == FramesRec(s, <<>>)

\* ------------------------------------------------------------------ bounded model (M)
\* Streams are concatenations of pieces; the model checks what makes chunk independence possible
\* at all: what can be framed from a prefix is a prefix of what is framed from the whole, and a
\* terminal format error seen in a prefix is the terminal error of the whole.
CONSTANTS Pieces, MaxPieces
VARIABLES stream, p                 \* p bytes of the stream have arrived

Concat(ps) == FoldLeft(LAMBDA acc, x : acc \o x, <<>>, ps)
Streams == UNION {[1..n -> Pieces] : n \in 1..MaxPieces}

Init == stream \in {Concat(f) : f \in Streams} /\ p = 0
Next == p < Len(stream) /\ p' = p + 1 /\ UNCHANGED stream
Spec == Init /\ [][Next]_<<stream, p>>

PrefixMonotone ==
    LET a == Frames(SubSeq(stream, 1, p))
        w == Frames(stream)
    IN /\ IsPrefix(a.frames, w.frames)
       /\ a.err # "EOF" => (a.err = w.err /\ a.frames = w.frames)
=============================================================================
