----------------------------- MODULE Dictionary -----------------------------
(***************************************************************************)
(* What a loaded data dictionary must say about a specification document   *)
(* (C19; datadictionary/build.go, datadictionary.go).  A document is       *)
(*   [fields     : <<[name, num, type, enums : <<text>>]>>,                *)
(*    components : <<[name, parts]>>,  messages : <<[name, msgtype, parts]>>,*)
(*    header : parts, trailer : parts]                                     *)
(* and a part is [k |-> "field" | "component" | "group", name, req, parts].*)
(* The operators below are the sentences of C19: the fields reachable      *)
(* through fields, components and groups; the required tags (directly      *)
(* required fields plus, recursively, the required fields of REQUIRED      *)
(* components); group members in declaration order with components         *)
(* expanded in place; refusal of dangling references.                      *)
(***************************************************************************)
EXTENDS Integers, Sequences, FiniteSets, TLC

Range(s) == {s[i] : i \in DOMAIN s}

FieldNames(doc) == {doc.fields[i].name : i \in DOMAIN doc.fields}
CompNames(doc) == {doc.components[i].name : i \in DOMAIN doc.components}
NumOf(doc, name) == doc.fields[CHOOSE i \in DOMAIN doc.fields : doc.fields[i].name = name].num
PartsOf(doc, cname) == doc.components[CHOOSE i \in DOMAIN doc.components : doc.components[i].name = cname].parts

RECURSIVE Flat(_, _), Deep(_, _), Req(_, _), Dangling(_, _, _)

\* the member fields of a parts list in declaration order, components expanded in place; a group
\* contributes its own count field (its members are one level down)
Flat(doc, parts) ==
    IF parts = <<>> THEN <<>>
    ELSE LET p == Head(parts) IN
         (CASE p.k = "component" -> Flat(doc, PartsOf(doc, p.name))
            [] OTHER -> <<NumOf(doc, p.name)>>) \o Flat(doc, Tail(parts))

\* every tag reachable: fields, component fields, group count fields and, recursively, group members
Deep(doc, parts) ==
    IF parts = <<>> THEN {}
    ELSE LET p == Head(parts) IN
         (CASE p.k = "component" -> Deep(doc, PartsOf(doc, p.name))
            [] p.k = "group" -> {NumOf(doc, p.name)} \cup Deep(doc, p.parts)
            [] OTHER -> {NumOf(doc, p.name)}) \cup Deep(doc, Tail(parts))

\* required tags at this level: directly required fields (and group count fields) plus, recursively,
\* the required fields of required components
Req(doc, parts) ==
    IF parts = <<>> THEN {}
    ELSE LET p == Head(parts) IN
         (CASE p.k = "component" -> IF p.req THEN Req(doc, PartsOf(doc, p.name)) ELSE {}
            [] OTHER -> IF p.req THEN {NumOf(doc, p.name)} ELSE {}) \cup Req(doc, Tail(parts))

\* a reference to an undefined field or component (seen = components on the current path: a cycle
\* is not a dangling reference and is reported separately)
Dangling(doc, parts, seen) ==
    \E i \in DOMAIN parts :
        LET p == parts[i] IN
        CASE p.k = "component" -> p.name \notin CompNames(doc)
                                   \/ (p.name \notin seen /\ Dangling(doc, PartsOf(doc, p.name), seen \cup {p.name}))
          [] p.k = "group" -> p.name \notin FieldNames(doc) \/ Dangling(doc, p.parts, seen)
          [] OTHER -> p.name \notin FieldNames(doc)

Refused(doc) ==
    \/ \E i \in DOMAIN doc.messages : Dangling(doc, doc.messages[i].parts, {})
    \/ \E i \in DOMAIN doc.components : Dangling(doc, doc.components[i].parts, {doc.components[i].name})
    \/ Dangling(doc, doc.header, {}) \/ Dangling(doc, doc.trailer, {})

RECURSIVE Groups(_, _, _)
\* all groups reachable from a parts list as <<path of count-field numbers, member order>>
Groups(doc, parts, path) ==
    IF parts = <<>> THEN {}
    ELSE LET p == Head(parts) IN
         (CASE p.k = "component" -> Groups(doc, PartsOf(doc, p.name), path)
            [] p.k = "group" -> LET q == Append(path, NumOf(doc, p.name)) IN
                                {<<q, Flat(doc, p.parts)>>} \cup Groups(doc, p.parts, q)
            [] OTHER -> {}) \cup Groups(doc, Tail(parts), path)

\* what the loaded dictionary must say about one parts list (a message, the header or the trailer)
Expect(doc, parts) == [fields |-> Range(Flat(doc, parts)), tags |-> Deep(doc, parts), req |-> Req(doc, parts),
                       groups |-> Groups(doc, parts, <<>>)]

\* ------------------------------------------------------------------ bounded model (M): laws of the operators
CONSTANTS Docs
VARIABLES d
Init == d \in DOMAIN Docs
Next == UNCHANGED d
Spec == Init /\ [][Next]_d
AllParts(doc) == {doc.messages[i].parts : i \in DOMAIN doc.messages} \cup {doc.header, doc.trailer}
Laws == LET doc == Docs[d] IN ~Refused(doc) =>
           \A ps \in AllParts(doc) :
               /\ Req(doc, ps) \subseteq Range(Flat(doc, ps))
               /\ Range(Flat(doc, ps)) \subseteq Deep(doc, ps)
               /\ \A g \in Groups(doc, ps, <<>>) : g[1][Len(g[1])] \in Deep(doc, ps) /\ Range(g[2]) \subseteq Deep(doc, ps)
=============================================================================
