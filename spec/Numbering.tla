----------------------------- MODULE Numbering -----------------------------
(***************************************************************************)
(* The numbering core of SendPath.tla (session.go prepMessageForSend under *)
(* sendMutex): any set of processes, any number of submissions.  Proved    *)
(* with TLAPS for every parameter value: the numbers handed out are        *)
(* exactly 1 .. nextOut-1 whenever nobody is between reading the store's   *)
(* next number and writing it back - the unbounded counterpart of the      *)
(* invariants C02_Consecutive and C02_StoreNext that TLC checks on         *)
(* SendPath.tla for small constants.                                       *)
(***************************************************************************)
EXTENDS Integers, TLAPS

CONSTANT Procs
VARIABLES nextOut,   \* the store's next outbound number
          stored,    \* numbers saved
          owner,     \* holder of the send lock (Procs or "none")
          pc,        \* per process: "idle" | "locked" | "numbered"
          num        \* per process: the number read

vars == <<nextOut, stored, owner, pc, num>>
NoOne == "none"
ASSUME NoOneNotProc == NoOne \notin Procs

Init == /\ nextOut = 1 /\ stored = {} /\ owner = NoOne
        /\ pc = [p \in Procs |-> "idle"] /\ num = [p \in Procs |-> 0]

Lock(p) == /\ pc[p] = "idle" /\ owner = NoOne
           /\ owner' = p /\ pc' = [pc EXCEPT ![p] = "locked"]
           /\ UNCHANGED <<nextOut, stored, num>>
Read(p) == /\ pc[p] = "locked"
           /\ num' = [num EXCEPT ![p] = nextOut] /\ pc' = [pc EXCEPT ![p] = "numbered"]
           /\ UNCHANGED <<nextOut, stored, owner>>
\* persist + increment + enqueue + unlock
Save(p) == /\ pc[p] = "numbered"
           /\ stored' = stored \cup {num[p]} /\ nextOut' = num[p] + 1
           /\ owner' = NoOne /\ pc' = [pc EXCEPT ![p] = "idle"]
           /\ UNCHANGED num

Next == \E p \in Procs : Lock(p) \/ Read(p) \/ Save(p)
Spec == Init /\ [][Next]_vars

TypeOK == /\ nextOut \in Nat \ {0} /\ stored \subseteq Nat
          /\ owner \in Procs \cup {NoOne}
          /\ pc \in [Procs -> {"idle", "locked", "numbered"}]
          /\ num \in [Procs -> Nat]

Consecutive == stored = 1..(nextOut - 1)

Inv == /\ TypeOK
       /\ Consecutive
       /\ \A p \in Procs : pc[p] # "idle" <=> owner = p
       /\ \A p \in Procs : pc[p] = "numbered" => num[p] = nextOut

THEOREM Safety == Spec => []Consecutive
<1>1. Init => Inv
  BY NoOneNotProc DEF Init, Inv, TypeOK, Consecutive
<1>2. Inv /\ [Next]_vars => Inv'
  <2> SUFFICES ASSUME Inv, [Next]_vars PROVE Inv'
    OBVIOUS
  <2>1. CASE UNCHANGED vars
    BY <2>1 DEF Inv, TypeOK, Consecutive, vars
  <2>2. ASSUME NEW p \in Procs, Lock(p) PROVE Inv'
    BY <2>2, NoOneNotProc DEF Inv, TypeOK, Consecutive, Lock
  <2>3. ASSUME NEW p \in Procs, Read(p) PROVE Inv'
    BY <2>3, NoOneNotProc DEF Inv, TypeOK, Consecutive, Read
  <2>4. ASSUME NEW p \in Procs, Save(p) PROVE Inv'
    BY <2>4, NoOneNotProc DEF Inv, TypeOK, Consecutive, Save
  <2> QED
    BY <2>1, <2>2, <2>3, <2>4 DEF Next
<1>3. Inv => Consecutive
  BY DEF Inv
<1> QED
  BY <1>1, <1>2, <1>3, PTL DEF Spec
=============================================================================
