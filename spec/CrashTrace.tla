----------------------------- MODULE CrashTrace -----------------------------
(***************************************************************************)
(* Fault enumeration for C17, judged by the specification.  Each line of   *)
(* trace.ndjson is one crash image of the real file store:                 *)
(*   hist : operations completed before the interrupted one                *)
(*   op   : the interrupted operation; mode/point/cut say where it died    *)
(*   obs  : what a fresh store opened on the image answers (counters,      *)
(*          GetMessages per number and over the whole range) and what a    *)
(*          further SaveMessageAndIncr does                                *)
(* The abstract store before and after the interrupted operation is        *)
(* computed with Store!Apply; the clauses are the sentences of C17.        *)
(***************************************************************************)
EXTENDS Store, Json

VARIABLE l
Trace == ndJsonDeserialize("trace.ndjson")

RECURSIVE Run(_, _, _)
Run(st, ops, i) == IF i > Len(ops) THEN st ELSE Run(Apply(st, ops[i]).st, ops, i + 1)

Per(obs, n) == IF n \in 1..Len(obs.per) THEN obs.per[n] ELSE [n |-> n, ok |-> TRUE, ids |-> <<>>]

Fails(r) ==
    LET before == Run(NewStore(0), r.hist, 1)
        after == Apply(before, r.op).st
        obs == r.obs
        known(n, id) == (n \in DOMAIN after.msgs /\ id = after.msgs[n]) \/ (n \in DOMAIN before.msgs /\ id = before.msgs[n])
    IN {c \in {"reopens", "countersBeforeOrAfter", "completedSavesIntact", "noTornOrForeign", "counterImpliesMessage", "furtherSaveWorks"} :
        ~ CASE c = "reopens" -> obs.reopen
            [] c = "countersBeforeOrAfter" ->
                   obs.reopen => (obs.ns \in {before.ns, after.ns} /\ obs.nt \in {before.nt, after.nt})
            [] c = "completedSavesIntact" ->
                   (obs.reopen /\ r.op.k # "Reset") =>
                       /\ \A n \in DOMAIN before.msgs : Per(obs, n).ok /\ Per(obs, n).ids = <<before.msgs[n]>>
                       /\ DOMAIN before.msgs # {} => obs.whole.ok        \* a range covering them can be read
            [] c = "noTornOrForeign" ->
                   obs.reopen => \A i \in DOMAIN obs.per : \A j \in DOMAIN obs.per[i].ids : known(obs.per[i].n, obs.per[i].ids[j])
            [] c = "counterImpliesMessage" ->
                   \* numbers below the recovered outbound counter whose message was saved by a completed
                   \* operation, or by the interrupted save-and-increment if its increment survived
                   obs.reopen => \A n \in 1..(obs.ns - 1) :
                       ((n \in DOMAIN before.msgs /\ r.op.k # "Reset")
                         \/ (r.op.k = "SaveIncr" /\ n = r.op.n /\ obs.ns = after.ns /\ after.ns # before.ns))
                       => (Per(obs, n).ok /\ Per(obs, n).ids # <<>> /\ Per(obs, n).ids[Len(Per(obs, n).ids)] = after.msgs[n])
            [] c = "furtherSaveWorks" ->
                   \* (a further save under a number that already holds a completed message - possible only after
                   \* plain SaveMessage calls that did not move the counter - is not judged: the session never does that)
                   (obs.reopen /\ obs.further.done
                      /\ obs.further.n \notin DOMAIN before.msgs
                      /\ ~(r.op.k = "Save" /\ obs.further.n = r.op.n /\ Per(obs, r.op.n).ok /\ Per(obs, r.op.n).ids = <<after.msgs[r.op.n]>>)) =>
                       \* the new message is retrievable under its number (last), nothing torn or foreign
                       \* comes with it, and the counter moved on
                       /\ ~obs.further.err /\ obs.further.ok /\ obs.further.ns = obs.further.n + 1
                       /\ obs.further.ids # <<>> /\ obs.further.ids[Len(obs.further.ids)] = "m6"
                       /\ \A j \in 1..(Len(obs.further.ids) - 1) : known(obs.further.n, obs.further.ids[j])}

TraceInit == l = 1 /\ store = [s \in SIDs |-> NewStore(0)]
             /\ last = [sid |-> CHOOSE s \in SIDs : TRUE, ev |-> [k |-> "Init"], ret |-> [seen |-> <<>>, err |-> FALSE]]
TraceStep == /\ l <= Len(Trace) /\ l' = l + 1 /\ UNCHANGED <<store, last>>
             /\ LET bad == Fails(Trace[l]) IN IF bad = {} THEN TRUE ELSE PrintT(<<"MISMATCH", l, bad>>)
TraceSpec == TraceInit /\ [][TraceStep]_<<l, store, last>>
AllConsumed == TLCGet("stats").diameter = Len(Trace) + 1

\* System-call audit (strace over the real store, FileStoreSync on): when an operation returns, every
\* store file it wrote has been synced after its last write - what the power-loss images take for granted
\* at the end of an operation.
AuditFails(r) == {c \in {"syncedOnReturn"} : ~ (r.unsynced = <<>>)}

\* SQL: a failure of either statement (or of the commit) of save-and-increment leaves neither behind
SqlFails(r) == {c \in {"atomic"} :
    ~ IF r.fail = "none" THEN (~r.err /\ r.cacheNs = r.next + 1 /\ r.reopenNs = r.next + 1 /\ r.present /\ r.reopenPresent)
      ELSE (r.err /\ r.cacheNs = r.next /\ r.reopenNs = r.next /\ ~r.present /\ ~r.reopenPresent)}
=============================================================================
