--------------------------- MODULE FieldMapTrace ---------------------------
(***************************************************************************)
(* Trace validation for C10: each line is one API call made on a real      *)
(* quickfix.Message followed by Message build, an independent scan of the  *)
(* bytes, ParseMessage of the bytes and a CopyInto; the model is advanced  *)
(* with FieldMap!Apply and the observation judged by FieldMap!Fails.       *)
(***************************************************************************)
EXTENDS FieldMap, Json

VARIABLE l
Trace == ndJsonDeserialize("trace.ndjson")

OpOf(r) == IF r.op.k = "SetGroup"
           THEN [r.op EXCEPT !.es = [i \in DOMAIN r.op.es |-> [j \in DOMAIN r.op.es[i] |-> <<r.op.es[i][j][1], r.op.es[i][j][2]>>]]]
           ELSE r.op

TraceInit == l = 1 /\ msg = NewMsg /\ lastOp = [k |-> "Init"]
TraceStep ==
    /\ l <= Len(Trace) /\ l' = l + 1
    /\ LET r == Trace[l] IN
       IF r.op.k = "TraceReset" THEN msg' = NewMsg /\ lastOp' = r.op
       ELSE LET m1 == (IF r.op.k = "Clear" /\ r.op.s = "h"
                       THEN [Apply(msg, OpOf(r)) EXCEPT !.h = (8 :> Plain("FIX.4.2")) @@ (35 :> Plain("D"))]
                       ELSE Apply(msg, OpOf(r)))
                bad == Fails(m1, r.obs)
            IN /\ msg' = m1 /\ lastOp' = r.op
               /\ IF bad = {} THEN TRUE ELSE PrintT(<<"MISMATCH", l, bad>>)
TraceSpec == TraceInit /\ [][TraceStep]_<<l, msg, lastOp>>
AllConsumed == TLCGet("stats").diameter = Len(Trace) + 1
=============================================================================
