----------------------------- MODULE FileStore -----------------------------
(***************************************************************************)
(* The write protocol of the file message store (store/file/file_store.go) *)
(* under crashes - the design-level half of C17.                            *)
(*                                                                         *)
(* Files are modelled by what recovery can tell apart:                     *)
(*   body : sequence of chunks [id, ok]      (ok = FALSE: a cut write)     *)
(*   hdr  : sequence of index lines [n, at, ok]  (at = chunk position the  *)
(*          line points to: the end of the body file when it was written)  *)
(*   cs, ct : the two counter files: a number, Empty (just created) or     *)
(*          Mixed (digits of the old and the new text)                     *)
(* each with a current content (what the process wrote) and a durable      *)
(* content (what a power loss keeps for sure).  One operation at a time    *)
(* runs as a sequence of steps named after the crash points of the real    *)
(* code (store/file/verif_crash.go); a Crash may happen before any step,   *)
(* with the write of that step cut (process crash) or with any unsynced    *)
(* suffix lost (power loss).  After a crash the store is reopened          *)
(* (Recover) and the sentences of C17 are evaluated against the abstract   *)
(* store before and after the interrupted operation.                       *)
(*                                                                         *)
(* Protocol = "asbuilt" is the code: index line first, then the body, one  *)
(* sync for both, counters rewritten in place.  Protocol = "repaired" is a *)
(* protocol under which the sentences hold in the same crash model (body   *)
(* first and synced before its index line, recovery drops a cut or         *)
(* dangling last index line, counters replaced atomically): it shows the   *)
(* sentences are satisfiable and pins the finding on the order and         *)
(* atomicity of the writes.                                                *)
(***************************************************************************)
EXTENDS Integers, Sequences, FiniteSets, TLC

CONSTANTS Protocol,       \* "asbuilt" | "repaired"
          MaxOps,         \* operations per behaviour
          Ids             \* message bodies

VARIABLES body, hdr, cs, ct,          \* current file contents
          dbody, dhdr, dcs, dct,      \* durable file contents
          abs,                        \* the abstract store of completed operations [ns, nt, msgs]
          op, pc,                     \* the running operation and the index of its next step (0 = idle)
          nops,
          crashed, img                \* after a crash: the image that was reopened

vars == <<body, hdr, cs, ct, dbody, dhdr, dcs, dct, abs, op, pc, nops, crashed, img>>

\* counter file contents that are not a number (TLC compares integers with integers only)
Empty == 0       \* the file was just created: recovery leaves the default, 1
Mixed == -1      \* digits of the old and of the new text: a third value

Chunk(id, ok) == [id |-> id, ok |-> ok]
Line(n, at, ok) == [n |-> n, at |-> at, ok |-> ok]

\* ------------------------------------------------------------------ operations and their steps
\* the steps of an operation, named after the crash point reached when the step is done
SaveSteps == <<"SaveMessage:header-written", "SaveMessage:body-written", "sync:body+header">>
CtrSteps == <<"setSeqNum:written", "setSeqNum:synced">>
RefreshSteps == <<"Refresh:populated", "Refresh:opened:body", "Refresh:opened:header", "Refresh:opened:session",
                  "Refresh:opened:senderseqnums", "Refresh:opened:targetseqnums">>
ResetSteps == <<"Reset:closed", "Reset:removed:body", "Reset:removed:header", "Reset:removed:session",
                "Reset:removed:senderseqnums", "Reset:removed:targetseqnums">>
StepsOf(o) ==
    IF Protocol = "asbuilt"
    THEN CASE o.k = "SaveIncr" -> SaveSteps \o CtrSteps
           [] o.k = "Save" -> SaveSteps
           [] o.k \in {"IncrTarget", "SetTarget", "SetSender", "IncrSender"} -> CtrSteps
           [] o.k = "Refresh" -> RefreshSteps \o CtrSteps \o CtrSteps                 \* both counters written back
           [] o.k = "Reset" -> ResetSteps \o RefreshSteps \o <<"setSession:written", "setSession:synced">> \o CtrSteps \o CtrSteps
    ELSE CASE o.k = "SaveIncr" -> <<"body-written", "body-synced", "header-written", "header-synced", "counter-replaced">>
           [] o.k = "Save" -> <<"body-written", "body-synced", "header-written", "header-synced">>
           [] o.k \in {"IncrTarget", "SetTarget", "SetSender", "IncrSender"} -> <<"counter-replaced">>
           [] o.k = "Refresh" -> RefreshSteps
           [] o.k = "Reset" -> ResetSteps \o RefreshSteps \o <<"counter-replaced", "counter-replaced">>

\* the second counter step pair of Refresh / Reset writes the inbound counter
OnTarget(o, i) == \/ o.k \in {"IncrTarget", "SetTarget"}
                  \/ (o.k \in {"Refresh", "Reset"} /\ i = Len(StepsOf(o)))
                  \/ (o.k \in {"Refresh", "Reset"} /\ Protocol = "asbuilt" /\ i = Len(StepsOf(o)) - 1)

\* the abstract effect of a completed operation
AbsApply(a, o) ==
    CASE o.k = "SaveIncr" -> [a EXCEPT !.msgs = [x \in DOMAIN a.msgs \cup {a.ns} |-> IF x = a.ns THEN o.id ELSE a.msgs[x]], !.ns = a.ns + 1]
      [] o.k = "IncrTarget" -> [a EXCEPT !.nt = a.nt + 1]
      [] o.k = "SetTarget" -> [a EXCEPT !.nt = o.v]
      [] o.k = "SetSender" -> [a EXCEPT !.ns = o.v]
      [] o.k = "IncrSender" -> [a EXCEPT !.ns = a.ns + 1]
      [] o.k = "Save" -> [a EXCEPT !.msgs = [x \in DOMAIN a.msgs \cup {o.v} |-> IF x = o.v THEN o.id ELSE a.msgs[x]]]
      [] o.k = "Refresh" -> a
      [] o.k = "Reset" -> [ns |-> 1, nt |-> 1, msgs |-> <<>>]

\* in-place rewrite of a 19 digit text cut in the middle: a third value shows when more than one
\* digit changes (9 -> 10), or when the file was just created (some zeros read back as 0)
TwoDigitsChange(old, new) == (old \div 10) # (new \div 10) /\ (old % 10) # (new % 10)
CutCounter(old, new) == IF Protocol = "repaired" THEN {old, new}          \* replaced atomically
                        ELSE IF old = Empty THEN {Empty, Mixed, new}
                        ELSE IF TwoDigitsChange(old, new) THEN {old, Mixed, new} ELSE {old, new}

Files == [body |-> body, hdr |-> hdr, cs |-> cs, ct |-> ct]
Durable == [body |-> dbody, hdr |-> dhdr, cs |-> dcs, ct |-> dct]

\* the effect of step i of operation o on the current files f (whole = FALSE: the write is cut)
\* returns the set of possible contents
StepEffect(f, o, i, whole) ==
    LET name == StepsOf(o)[i]
        n == IF o.k = "Save" THEN o.v ELSE abs.ns
        newS == CASE o.k = "SaveIncr" -> abs.ns + 1 [] o.k = "IncrSender" -> abs.ns + 1 [] o.k = "SetSender" -> o.v
                  [] o.k = "Reset" -> 1 [] OTHER -> abs.ns
        newT == CASE o.k = "IncrTarget" -> abs.nt + 1 [] o.k = "SetTarget" -> o.v [] o.k = "Reset" -> 1 [] OTHER -> abs.nt
    IN CASE name = "SaveMessage:header-written" \/ name = "header-written" ->
              {[f EXCEPT !.hdr = Append(@, Line(n, IF Protocol = "asbuilt" THEN Len(f.body) + 1 ELSE Len(f.body), whole))]}
         [] name = "SaveMessage:body-written" \/ name = "body-written" ->
              {[f EXCEPT !.body = Append(@, Chunk(o.id, whole))]}
         [] name = "setSeqNum:written" ->
              IF OnTarget(o, i) THEN {[f EXCEPT !.ct = c] : c \in (IF whole THEN {newT} ELSE CutCounter(f.ct, newT))}
              ELSE {[f EXCEPT !.cs = c] : c \in (IF whole THEN {newS} ELSE CutCounter(f.cs, newS))}
         [] name = "counter-replaced" ->       \* write a new file, sync it, rename over the old one: all or nothing
              IF ~whole THEN {f}
              ELSE IF OnTarget(o, i) THEN {[f EXCEPT !.ct = newT]} ELSE {[f EXCEPT !.cs = newS]}
         [] name = "Reset:removed:body" -> {[f EXCEPT !.body = <<>>]}
         [] name = "Reset:removed:header" -> {[f EXCEPT !.hdr = <<>>]}
         [] name = "Reset:removed:senderseqnums" -> {[f EXCEPT !.cs = Empty]}
         [] name = "Reset:removed:targetseqnums" -> {[f EXCEPT !.ct = Empty]}
         [] OTHER -> {f}        \* syncs, opens, the session (creation time) file: no change to what recovery reads

\* which files a step makes durable
SyncEffect(d, f, o, i) ==
    LET name == StepsOf(o)[i] IN
    CASE name = "sync:body+header" -> [d EXCEPT !.body = f.body, !.hdr = f.hdr]
      [] name = "body-synced" -> [d EXCEPT !.body = f.body]
      [] name = "header-synced" -> [d EXCEPT !.hdr = f.hdr]
      [] name = "setSeqNum:synced" -> IF OnTarget(o, i) THEN [d EXCEPT !.ct = f.ct] ELSE [d EXCEPT !.cs = f.cs]
      [] name = "counter-replaced" -> [d EXCEPT !.cs = f.cs, !.ct = f.ct]
      \* closing syncs every file (closeSyncFile)
      [] name = "Reset:closed" \/ name = "Refresh:populated" -> f
      \* removals and creations are taken as immediately durable (directory syncs are not modelled)
      [] name = "Reset:removed:body" -> [d EXCEPT !.body = <<>>]
      [] name = "Reset:removed:header" -> [d EXCEPT !.hdr = <<>>]
      [] name = "Reset:removed:senderseqnums" -> [d EXCEPT !.cs = Empty]
      [] name = "Reset:removed:targetseqnums" -> [d EXCEPT !.ct = Empty]
      [] OTHER -> d

Op(k, id, v) == [k |-> k, id |-> id, v |-> v]
Ops == {Op("SaveIncr", id, 0) : id \in Ids}
       \cup {Op("IncrTarget", "", 0), Op("IncrSender", "", 0), Op("Reset", "", 0), Op("Refresh", "", 0),
             Op("SetTarget", "", 9), Op("SetSender", "", 9), Op("SetTarget", "", 10), Op("SetSender", "", 10)}
       \cup {Op("Save", id, 0) : id \in Ids}         \* v: the number, chosen in Begin

Init == /\ body = <<>> /\ hdr = <<>> /\ cs = 1 /\ ct = 1
        /\ dbody = <<>> /\ dhdr = <<>> /\ dcs = 1 /\ dct = 1
        /\ abs = [ns |-> 1, nt |-> 1, msgs |-> <<>>]
        /\ op = [k |-> "none", id |-> "", v |-> 0] /\ pc = 0 /\ nops = 0
        /\ crashed = FALSE /\ img = [mode |-> "none", f |-> [body |-> <<>>, hdr |-> <<>>, cs |-> 1, ct |-> 1], step |-> ""]

Begin(o) == /\ ~crashed /\ pc = 0 /\ nops < MaxOps
            /\ (o.k = "SetSender" => o.v > abs.ns)
            /\ op' = (IF o.k = "Save" THEN [o EXCEPT !.v = abs.ns] ELSE o)      \* a plain save under the next number
            \* a number is used for one save only (the session saves under the next outbound number and moves on)
            /\ (o.k \in {"Save", "SaveIncr"} => abs.ns \notin DOMAIN abs.msgs)
            /\ pc' = 1 /\ nops' = nops + 1
            /\ UNCHANGED <<body, hdr, cs, ct, dbody, dhdr, dcs, dct, abs, crashed, img>>

DoStep == /\ ~crashed /\ pc > 0
          /\ \E f \in StepEffect(Files, op, pc, TRUE) :
                /\ body' = f.body /\ hdr' = f.hdr /\ cs' = f.cs /\ ct' = f.ct
                /\ LET d == SyncEffect(Durable, f, op, pc) IN
                   dbody' = d.body /\ dhdr' = d.hdr /\ dcs' = d.cs /\ dct' = d.ct
          /\ IF pc = Len(StepsOf(op))
             THEN pc' = 0 /\ abs' = AbsApply(abs, op)
             ELSE pc' = pc + 1 /\ abs' = abs
          /\ UNCHANGED <<op, nops, crashed, img>>

\* what a power loss may leave of an append-only file: the durable content plus a prefix of what was
\* appended since, the last kept piece possibly cut
RECURSIVE Prefixes(_, _)
Prefixes(d, c) ==      \* d is a prefix of c
    IF Len(d) >= Len(c) THEN {d}
    ELSE {d} \cup {Append(d, [c[Len(d) + 1] EXCEPT !.ok = FALSE])} \cup Prefixes(Append(d, c[Len(d) + 1]), c)

IsPrefix(d, c) == Len(d) <= Len(c) /\ \A i \in DOMAIN d : d[i] = c[i]

PowerImages(f, d) ==
    {[body |-> b, hdr |-> h, cs |-> s, ct |-> t] :
        b \in (IF IsPrefix(d.body, f.body) THEN Prefixes(d.body, f.body) ELSE {f.body}),
        h \in (IF IsPrefix(d.hdr, f.hdr) THEN Prefixes(d.hdr, f.hdr) ELSE {f.hdr}),
        s \in (IF d.cs = f.cs THEN {f.cs} ELSE CutCounter(d.cs, f.cs)),
        t \in (IF d.ct = f.ct THEN {f.ct} ELSE CutCounter(d.ct, f.ct))}

LastPoint == IF pc = 1 THEN "start" ELSE StepsOf(op)[pc - 1]

\* a crash while step pc is about to run or is running
Crash == /\ ~crashed /\ pc > 0
         \* labels as in the fault enumeration on the real store: an image taken between two steps carries
         \* the name of the last crash point passed, a cut write the name of the point it was heading for
         /\ \/ img' = [mode |-> "process", f |-> Files, step |-> LastPoint]
            \/ \E f \in StepEffect(Files, op, pc, FALSE) \ {Files} :
                  img' = [mode |-> "process", f |-> f, step |-> StepsOf(op)[pc]]
            \/ \E f \in PowerImages(Files, Durable) :
                  img' = [mode |-> "power", f |-> f, step |-> LastPoint]
         /\ crashed' = TRUE
         /\ UNCHANGED <<body, hdr, cs, ct, dbody, dhdr, dcs, dct, abs, op, pc, nops>>

Next == (\E o \in Ops : Begin(o)) \/ DoStep \/ Crash
Spec == Init /\ [][Next]_vars

\* ------------------------------------------------------------------ recovery (reopen + read)
\* IterateMessages over [b, e]: scans the index lines in order
RECURSIVE Scan(_, _, _, _, _)
Scan(f, i, b, e, acc) ==
    IF i > Len(f.hdr) THEN [ok |-> TRUE, ids |-> acc]
    ELSE LET l == f.hdr[i] IN
         IF ~l.ok THEN (IF Protocol = "repaired" /\ i = Len(f.hdr) THEN [ok |-> TRUE, ids |-> acc]      \* cut last line dropped
                        ELSE [ok |-> FALSE, ids |-> acc])
         ELSE IF l.n > e THEN [ok |-> TRUE, ids |-> acc]
         ELSE IF l.n < b THEN Scan(f, i + 1, b, e, acc)
         ELSE IF l.at > Len(f.body) \/ l.at < 1
              THEN (IF Protocol = "repaired" /\ i = Len(f.hdr) THEN [ok |-> TRUE, ids |-> acc]          \* dangling last line dropped
                    ELSE [ok |-> FALSE, ids |-> acc])                                                    \* short read
         ELSE LET c == f.body[l.at] IN
              IF c.ok THEN Scan(f, i + 1, b, e, Append(acc, c.id))
              ELSE IF l.at = Len(f.body) THEN [ok |-> FALSE, ids |-> acc]                                \* cut chunk at the end: short read
              ELSE Scan(f, i + 1, b, e, Append(acc, "foreign"))                                          \* cut chunk + what follows it

Read(f, b, e) == Scan(f, 1, b, e, <<>>)
Ctr(c) == IF c = Empty THEN 1 ELSE c

\* a further SaveMessageAndIncr on the reopened store
Further(f) ==
    LET ns == Ctr(f.cs) IN
    IF ns = Mixed THEN f
    ELSE IF Protocol = "asbuilt"
         THEN [f EXCEPT !.hdr = Append(@, Line(ns, Len(f.body) + 1, TRUE)), !.body = Append(@, Chunk("further", TRUE)), !.cs = ns + 1]
         ELSE \* recovery dropped a cut/dangling last line and a cut last chunk
              LET h0 == IF f.hdr # <<>> /\ (~f.hdr[Len(f.hdr)].ok \/ f.hdr[Len(f.hdr)].at > Len(f.body)) THEN SubSeq(f.hdr, 1, Len(f.hdr) - 1) ELSE f.hdr
                  b1 == Append(f.body, Chunk("further", TRUE))
              IN [f EXCEPT !.body = b1, !.hdr = Append(h0, Line(ns, Len(b1), TRUE)), !.cs = ns + 1]

\* ------------------------------------------------------------------ the sentences of C17 on a crash image
Clauses == {"countersBeforeOrAfter", "completedSavesIntact", "noTornOrForeign", "counterImpliesMessage", "furtherSaveWorks"}

Fails(f, before, after, o) ==
    LET ns == Ctr(f.cs)
        nt == Ctr(f.ct)
        top == 12
        known(n, id) == (n \in DOMAIN after.msgs /\ id = after.msgs[n]) \/ (n \in DOMAIN before.msgs /\ id = before.msgs[n])
    IN {c \in Clauses :
        ~ CASE c = "countersBeforeOrAfter" -> ns \in {before.ns, after.ns} /\ nt \in {before.nt, after.nt}
            [] c = "completedSavesIntact" ->
                 o.k # "Reset" => /\ \A n \in DOMAIN before.msgs : Read(f, n, n) = [ok |-> TRUE, ids |-> <<before.msgs[n]>>]
                                  /\ (DOMAIN before.msgs # {} => Read(f, 1, top).ok)
            [] c = "noTornOrForeign" ->
                 \A n \in 1..top : \A j \in DOMAIN Read(f, n, n).ids : known(n, Read(f, n, n).ids[j])
            [] c = "counterImpliesMessage" ->
                 ns # Mixed => \A n \in 1..(ns - 1) :
                     ((n \in DOMAIN before.msgs /\ o.k # "Reset") \/ (o.k = "SaveIncr" /\ n = before.ns /\ ns = after.ns /\ after.ns # before.ns))
                     => LET r == Read(f, n, n) IN r.ok /\ r.ids # <<>> /\ r.ids[Len(r.ids)] = after.msgs[n]
            [] c = "furtherSaveWorks" ->
                 (ns # Mixed /\ ns \notin DOMAIN before.msgs) =>
                     LET g == Further(f)
                         r == Read(g, ns, ns)
                     IN r.ok /\ r.ids # <<>> /\ r.ids[Len(r.ids)] = "further"
                        /\ \A j \in 1..(Len(r.ids) - 1) : known(ns, r.ids[j])}

ImageFails == IF crashed THEN Fails(img.f, abs, AbsApply(abs, op), op) ELSE {}

\* as an invariant (Protocol = "repaired": must hold)
C17_Holds == ImageFails = {}

\* as a report (Protocol = "asbuilt"): every class of violating image is printed once per state; the check
\* compares the classes with those found on the real store
Report == IF ImageFails = {} THEN TRUE
          ELSE PrintT(<<"VIOL", op.k, img.step, img.mode, ImageFails>>)

\* crashes are terminal, so the interesting part of a state for the search is everything
=============================================================================
