SPECIFICATION TraceSpec
CONSTANTS
  Props = {"C01", "C03", "C04", "C06", "C07", "C08", "C20"}
POSTCONDITION AllConsumed
CHECK_DEADLOCK FALSE
