---------------------------- MODULE PairLiveTrace ----------------------------
(***************************************************************************)
(* C05 on executions of the real Acceptor and Initiator over loopback TCP  *)
(* (vlive driver: a proxy cuts the connection at timed points, the         *)
(* initiator is discarded and recreated on its file store).  Each line is  *)
(* one run: the identifiers each side accepted for sending, in submission  *)
(* order, and what the other side's application received, in order, after  *)
(* the link had stayed up.  The clauses are Pair.tla's, over observations: *)
(*   safety      what was received is a prefix of what was sent: nothing   *)
(*               unsent, nothing twice, nothing out of order               *)
(*   completion  once the link stays up (both sides logged on at the end)  *)
(*               everything sent has been received                         *)
(***************************************************************************)
EXTENDS Integers, Sequences, TLC, Json

VARIABLE l
Trace == ndJsonDeserialize("trace.ndjson")
IsPrefixOf(a, b) == Len(a) <= Len(b) /\ \A i \in DOMAIN a : a[i] = b[i]

LiveFails(r) ==
    {c \in {"safety", "completion"} :
       ~ CASE c = "safety" -> IsPrefixOf(r.gotA, r.sentI) /\ IsPrefixOf(r.gotI, r.sentA)
           [] c = "completion" -> (r.onA /\ r.onI) => (r.gotA = r.sentI /\ r.gotI = r.sentA)}

TraceInit == l = 1
TraceStep == /\ l <= Len(Trace) /\ l' = l + 1
             /\ LET bad == LiveFails(Trace[l]) IN IF bad = {} THEN TRUE ELSE PrintT(<<"VIOL", l, bad>>)
TraceSpec == TraceInit /\ [][TraceStep]_l
AllConsumed == TLCGet("stats").diameter = Len(Trace) + 1
=============================================================================
