------------------------------ MODULE Validator ------------------------------
(***************************************************************************)
(* What validation must answer (C15; validation.go).  A case is a wire     *)
(* message (field sequence), the specification documents it is validated   *)
(* against (transport part for header/trailer, application part for the    *)
(* body), the validator settings and the single defect it carries (or      *)
(* none).  The monitor is deliberately weaker than the implementation's    *)
(* rule pipeline: a conforming message is accepted; a message with one     *)
(* defect of kind k is rejected with k's session reject reason and the     *)
(* reference tag that identifies it - unless a setting relaxes that check. *)
(* Structural conformance of the generated message itself is re-derived    *)
(* here from the documents with Dictionary.tla's operators.                *)
(***************************************************************************)
EXTENDS Dictionary

MsgTypes(doc) == {doc.messages[i].msgtype : i \in DOMAIN doc.messages}
MsgParts(doc, mt) == doc.messages[CHOOSE i \in DOMAIN doc.messages : doc.messages[i].msgtype = mt].parts
TagsOf(fields) == {fields[i][1] : i \in DOMAIN fields}

\* structural defects visible from the documents alone
Struct(tdoc, adoc, mt, fields) ==
    IF mt \notin MsgTypes(adoc) THEN {"msgtype"}
    ELSE LET tags == TagsOf(fields)
             defined == Deep(tdoc, tdoc.header) \cup Deep(tdoc, tdoc.trailer) \cup Deep(adoc, MsgParts(adoc, mt))
             required == Req(tdoc, tdoc.header) \cup Req(tdoc, tdoc.trailer) \cup Req(adoc, MsgParts(adoc, mt))
         IN (IF required \subseteq tags THEN {} ELSE {"required"})
            \cup (IF tags \subseteq defined THEN {} ELSE {"notdefined"})

\* what must happen: [v |-> "accept" | "reject" | "unspec", reasons, tag] (tag 0 = no reference tag demanded)
Want(k, tag, st) ==
    LET rej(rs, t) == [v |-> "reject", reasons |-> rs, tag |-> t]
        acc == [v |-> "accept", reasons |-> {}, tag |-> 0]
        unspec == [v |-> "unspec", reasons |-> {}, tag |-> 0]
        any == 0..20
    IN CASE k = "none" -> acc
         [] k = "msgtype" -> rej({11}, 0)
         [] k = "required" -> rej({1}, tag)
         \* (ValidateFieldsHaveValues=N: "fields without values will not be rejected")
         [] k = "emptyvalue" -> IF st.haveValues THEN rej({4}, tag) ELSE acc
         [] k = "sectionorder" -> IF st.outOfOrder THEN rej({14}, tag) ELSE unspec
         [] k = "invalidtag" -> IF st.rejectInvalid /\ (IF tag < 5000 THEN ~st.allowUnknown ELSE st.checkUserDefined) THEN rej({0}, tag) ELSE acc
         [] k = "notdefined" -> IF st.rejectInvalid /\ ~st.allowUnknown THEN rej({2}, tag) ELSE acc
         [] k = "badvalue" -> IF st.rejectInvalid THEN rej({6}, tag) ELSE acc
         [] k = "enum" -> IF st.rejectInvalid THEN rej({5}, tag) ELSE acc
         [] k = "groupcount" -> IF st.rejectInvalid THEN rej({16}, tag) ELSE acc
         [] k = "grouporder" -> IF st.rejectInvalid THEN rej(any, 0) ELSE acc     \* which reason names a member-order defect is left open
         [] k = "duplicate" -> IF st.rejectInvalid THEN rej({13}, tag) ELSE acc
         \* the same tag twice where the tag itself is tolerated by a setting (unknown fields allowed, user
         \* defined fields not checked): the single defect is the repetition
         [] k = "dup_tolerated" -> IF st.rejectInvalid /\ (IF tag < 5000 THEN st.allowUnknown ELSE (~st.checkUserDefined \/ st.allowUnknown))
                                   THEN rej({13}, tag) ELSE unspec

\* generator sanity: the case carries the structural defect it claims, and no other
Sane(tdoc, adoc, r) ==
    LET s == Struct(tdoc, adoc, r.msgtype, r.fields) IN
    CASE r.defect.k = "msgtype" -> s = {"msgtype"}
      [] r.defect.k = "required" -> s = {"required"}
      [] r.defect.k \in {"invalidtag", "notdefined", "dup_tolerated"} -> s = {"notdefined"}
      [] OTHER -> s = {}

Fails(r) ==
    LET w == Want(r.defect.k, r.defect.tag, r.settings)
        o == r.obs
    IN {x \in {"acceptsConforming", "rejectsDefect", "reason", "refTag"} :
          ~ CASE x = "acceptsConforming" -> (w.v = "accept") => (o.parsed /\ o.ok)
              [] x = "rejectsDefect" -> (w.v = "reject") => (o.parsed /\ ~o.ok)
              [] x = "reason" -> (w.v = "reject" /\ o.parsed /\ ~o.ok) => (o.reason \in w.reasons /\ ~o.biz)
              [] x = "refTag" -> (w.v = "reject" /\ o.parsed /\ ~o.ok /\ w.tag # 0) => o.tag = w.tag}
=============================================================================
