------------------------------- MODULE Session -------------------------------
(***************************************************************************)
(* One Engine plus a nondeterministic environment (peer, application,      *)
(* timers, operator).  The event alphabet is a constant set of *relative*  *)
(* events (sequence numbers as offsets from the expected inbound number),  *)
(* so that a dot dump of the state graph labels each edge with a complete  *)
(* input: a path in the graph is a script for the vsession driver.         *)
(* The properties C01 C03 C04 C06 C07 C08 C20 are defined in Monitors.tla  *)
(* over one observed step and are checked here as action properties.       *)
(***************************************************************************)
EXTENDS Engine, Monitors

CONSTANTS Family,          \* which event alphabet (one per property family)
          CfgRole, CfgBS, CfgChunk, CfgPersist, CfgResetOnLogon, CfgResetOnLogout,
          CfgResetOnDisconnect, CfgCheckLatency, CfgHbOverride, CfgResetSeqTime, CfgSchedule,
          MaxIn, MaxOut,   \* counters explored up to these values
          MaxEp,           \* store resets explored
          MaxStash         \* early messages kept at a time

VARIABLES eng,             \* the Engine record (with the logs of the last step)
          aux,             \* monitor memory (Monitors!AuxInit / AuxNext)
          lastEv           \* the absolute event of the last step (observation only)

vars == <<eng, aux, lastEv>>

McCfg == [DefaultCfg EXCEPT !.role = CfgRole, !.bs = CfgBS, !.chunk = CfgChunk, !.persist = CfgPersist,
                            !.resetOnLogon = CfgResetOnLogon, !.resetOnLogout = CfgResetOnLogout,
                            !.resetOnDisconnect = CfgResetOnDisconnect,
                            !.checkLatency = CfgCheckLatency, !.hbOverride = CfgHbOverride,
                            !.resetSeqTime = CfgResetSeqTime, !.schedule = CfgSchedule]

\* ------------------------------------------------------------------ relative messages
R(t, rs) == [t |-> t, rs |-> rs, seqc |-> "ok", pd |-> "none", ost |-> "none", bs |-> "ok", cid |-> "ok",
             st |-> "ok", val |-> "ok", app |-> "ok", gf |-> "none", rn |-> -99, b |-> 0, e |-> 0,
             trid |-> "", rsf |-> "none", hb |-> 30, dav |-> "ok"]

Abs(s, r) == [t |-> r.t, seq |-> s.nIn + r.rs, seqc |-> r.seqc, pd |-> r.pd, ost |-> r.ost, bs |-> r.bs,
              cid |-> r.cid, st |-> r.st, val |-> r.val, app |-> r.app, gf |-> r.gf,
              newseq |-> IF r.rn = -99 THEN 0 ELSE s.nIn + r.rn, b |-> r.b, e |-> r.e,
              trid |-> r.trid, rsf |-> r.rsf, hb |-> r.hb, dav |-> r.dav]

PossDup(r) == [r EXCEPT !.pd = "Y", !.ost = "ok"]
In(r) == [k |-> "Incoming", m |-> r]
Pre(r) == [k |-> "Preload", m |-> r]
T(e) == [k |-> "Timeout", e |-> e]
K(k) == [k |-> k]
Tick(w) == [k |-> "TimeTick", e |-> w]
Snd(x, dns, ref) == [k |-> "Send", a |-> [x |-> x, dns |-> dns, ref |-> ref]]

Lifecycle == {K("Connect"), K("Disconnected"), T("PeerTimeout"), T("NeedHeartbeat")}
LogonOK == In(R("A", 0))

\* ---- family "seq": C01 (order, exactly once) and C04 (gap recovery)
SeqEvents ==
    Lifecycle \cup {LogonOK, In([R("A", 2) EXCEPT !.hb = 30]), In([R("A", 0) EXCEPT !.rsf = "N"])}
    \cup {In(R("D", rs)) : rs \in {-1, 0, 1, 2, 3}}
    \cup {In(PossDup(R("D", rs))) : rs \in {-1, 0, 1}}
    \cup {In([R("D", 0) EXCEPT !.app = v]) : v \in {"rej", "biz"}}
    \cup {In(R("0", rs)) : rs \in {0, 1}}
    \cup {In([R("1", 0) EXCEPT !.trid = "T1"])}
    \cup {In([PossDup(R("4", rs)) EXCEPT !.gf = "Y", !.rn = rn]) : rs \in {-1, 0, 1}, rn \in {0, 1, 2, 3}}
    \cup {In([R("4", rs) EXCEPT !.rn = rn]) : rs \in {-2, 0, 1}, rn \in {-1, 0, 2}}    \* reset mode: MsgSeqNum not checked
    \cup {In([R("2", rs) EXCEPT !.b = 1, !.e = 0]) : rs \in {0, 1}}
    \cup {In(R("5", rs)) : rs \in {0, 1}}

\* ---- family "gate": C06 (session-level checks)
Defects(r) ==
    {[r EXCEPT !.bs = "wrong"]}
    \cup {[r EXCEPT !.cid = c] : c \in {"wrong", "nosender", "notarget", "emptysender", "emptytarget"}}
    \cup {[r EXCEPT !.st = c] : c \in {"stale", "future", "missing", "bad"}}
    \cup {[r EXCEPT !.seqc = c] : c \in {"missing", "garbled"}}
    \cup {[r EXCEPT !.val = "bad"]}
    \cup {[r EXCEPT !.app = v] : v \in {"rej", "biz"}}

GateBase == {R("D", 0), R("D", -1), R("D", 1), PossDup(R("D", -1)), R("0", 0), [R("1", 0) EXCEPT !.trid = "T1"],
             [R("2", 0) EXCEPT !.b = 1, !.e = 0], R("5", 0), [PossDup(R("4", 0)) EXCEPT !.gf = "Y", !.rn = 1],
             [R("4", 1) EXCEPT !.rn = 2],          \* SequenceReset in reset mode (its own MsgSeqNum is not checked)
             R("3", 0)}

GateEvents ==
    {K("Connect"), T("PeerTimeout"), LogonOK}
    \cup {In(r) : r \in GateBase}
    \cup {In(d) : d \in UNION {Defects(r) : r \in GateBase}}
    \cup {In(d) : d \in Defects(R("A", 0))}
    \cup {In(d) : d \in Defects([R("A", 0) EXCEPT !.rsf = "Y"])}
    \cup {In([PossDup(R("D", -1)) EXCEPT !.ost = o]) : o \in {"none", "bad", "after"}}
    \cup {In([R("D", -1) EXCEPT !.pd = p]) : p \in {"N", "bad"}}
    \cup {In(R("D", 2))}

\* ---- family "life": C07 (resets) and C08 (logon/logout discipline)
LifeEvents ==
    Lifecycle \cup {K("Stop"), K("Flush"), T("LogonTimeout"), T("LogoutTimeout"), K("Consume")}
    \cup {Snd("b1", FALSE, FALSE), Snd("b2", TRUE, FALSE)}
    \cup {In([R("A", rs) EXCEPT !.rsf = f]) : rs \in {-1, 0}, f \in {"none", "Y", "N"}} \cup {In(R("A", 1))}
    \cup {In([R("A", 0) EXCEPT !.app = "rejlogon"]), In([R("A", 0) EXCEPT !.cid = "wrong"])}
    \cup {In(R("5", rs)) : rs \in {-1, 0, 1}}
    \cup {In(R("D", rs)) : rs \in {0, 1}}
    \cup {In(R("0", 0)), In([R("D", 0) EXCEPT !.cid = "wrong"]), In(R("garbled", 0))}
    \cup {In([R("4", rs) EXCEPT !.rn = rn]) : rs \in {-2, 0, 2}, rn \in {-1, 0, 1, 2}}      \* reset mode: MsgSeqNum not checked
    \cup {In([PossDup(R("4", rs)) EXCEPT !.gf = "Y", !.rn = rn]) : rs \in {-1, 0}, rn \in {-1, 0, 2}}
    \cup {Pre(R("D", 0)), Pre(R("5", 0)), Pre(R("0", 0)), Pre([R("1", 0) EXCEPT !.trid = "T1"])}
    \cup (IF CfgSchedule THEN {Tick("same"), Tick("out"), Tick("next")} ELSE {})     \* the session schedule's ticker
    \cup (IF CfgResetSeqTime THEN {K("ResetTick")} ELSE {})

\* ---- family "reset": C07 (a slice of "life" without buffered frames and application sends)
ResetEvents ==
    {K("Connect"), K("Disconnected"), K("Stop"), T("LogonTimeout"), T("LogoutTimeout")}
    \cup (IF CfgResetSeqTime THEN {K("ResetTick")} ELSE {})     \* the configured ResetSeqTime is crossed
    \cup (IF CfgSchedule THEN {Tick("same"), Tick("out"), Tick("next")} ELSE {})
    \cup {In([R("A", rs) EXCEPT !.rsf = f]) : rs \in {-1, 0}, f \in {"none", "Y", "N"}} \cup {In(R("A", 1))}
    \cup {In([R("A", 0) EXCEPT !.cid = "wrong"])}
    \cup {In([R("A", rs) EXCEPT !.cid = "wrong", !.rsf = "Y"]) : rs \in {-1, 0}}             \* refused Logons asking for a reset
    \cup {In([R("A", rs) EXCEPT !.app = "rejlogon", !.rsf = f]) : rs \in {-1, 0}, f \in {"none", "Y"}}
    \cup {In([R("A", 0) EXCEPT !.st = "stale", !.rsf = "Y"])}
    \cup {In(R("5", rs)) : rs \in {-1, 0, 1}}
    \cup {In(R("D", 0)), In(R("0", 0))}
    \cup {In([R("4", rs) EXCEPT !.rn = rn]) : rs \in {-2, 0, 2}, rn \in {-1, 0, 1, 2}}
    \cup {In([PossDup(R("4", rs)) EXCEPT !.gf = "Y", !.rn = rn]) : rs \in {-1, 0}, rn \in {-1, 0, 2}}

\* ---- family "garbage": C09 (malformed frames in every session state, then a well-formed TestRequest)
Garbage(r) ==
    {[r EXCEPT !.seqc = c] : c \in {"missing", "garbled", "empty"}}
    \cup {[r EXCEPT !.st = c] : c \in {"missing", "bad"}}
    \cup {[r EXCEPT !.cid = c] : c \in {"nosender", "notarget", "emptysender", "emptytarget"}}
    \cup {[r EXCEPT !.pd = "bad"], [r EXCEPT !.val = "bad"], [r EXCEPT !.bs = "wrong"]}
GarbageEvents ==
    {K("Connect"), K("Disconnected"), K("Stop"), T("PeerTimeout"), LogonOK, In(R("A", 2)), In(R("D", 2)), In(R("D", 1)), In(R("D", 0)),
     In([R("1", 0) EXCEPT !.trid = "T1"]), In(R("garbled", 0))}
    \cup {In(g) : g \in UNION {Garbage(R(t, 0)) : t \in {"D", "0", "1", "2", "4", "5", "A", "3"}}}
    \cup {In([PossDup(R("D", -1)) EXCEPT !.ost = o]) : o \in {"none", "bad", "after"}}
    \cup {In([R("4", 0) EXCEPT !.gf = "bad"]), In([R("2", 0) EXCEPT !.b = -1]), In([R("2", 0) EXCEPT !.b = 1, !.e = -1])}
    \* rejects that name no tag (the Reject layout differs below FIX.4.2)
    \cup {In([R("4", 0) EXCEPT !.rn = -1]), In([R("D", 0) EXCEPT !.cid = "wrong"]), In([R("D", 0) EXCEPT !.st = "stale"]),
          In([R("D", 0) EXCEPT !.app = "rej"]), In([R("D", 0) EXCEPT !.app = "biz"])}

\* ---- family "keep": C20 (keep-alive)
KeepEvents ==
    {K("Connect"), K("Disconnected"), T("PeerTimeout"), T("NeedHeartbeat"), K("Flush"), Snd("b1", FALSE, FALSE)}
    \cup {In([R("A", 0) EXCEPT !.hb = h]) : h \in {1, 30}} \cup {In(R("A", 2))}
    \cup {In([R("1", 0) EXCEPT !.trid = id]) : id \in {"T1", "T2", ""}} \cup {In([R("1", 1) EXCEPT !.trid = "T1"])}
    \cup {In(R("0", 0)), In(R("D", 0)), In(R("D", 2)), In(PossDup(R("D", -1))), In(R("garbled", 0))}
    \cup {In(PossDup(R("D", 0))), In([PossDup(R("4", 0)) EXCEPT !.gf = "Y", !.rn = 1])}
    \cup {In([PossDup(R("4", 0)) EXCEPT !.gf = "Y", !.rn = 2])}

\* ---- family "resend": C03 (replay)
ResendEvents ==
    {K("Connect"), LogonOK, K("Flush"), T("NeedHeartbeat"), K("Disconnected")}
    \cup (IF CfgResetSeqTime THEN {K("ResetTick")} ELSE {})
    \cup {Snd("b1", FALSE, FALSE), Snd("b2", FALSE, TRUE)}
    \cup {In([R("1", 0) EXCEPT !.trid = "T1"])}
    \cup {In([R("2", rs) EXCEPT !.b = b, !.e = e]) : rs \in {0, 1}, b \in 1..(MaxOut + 1), e \in (0..(MaxOut + 1)) \cup {999999}}

Alphabet == CASE Family = "seq" -> SeqEvents
              [] Family = "gate" -> GateEvents
              [] Family = "life" -> LifeEvents
              [] Family = "reset" -> ResetEvents
              [] Family = "garbage" -> GarbageEvents
              [] Family = "keep" -> KeepEvents
              [] Family = "resend" -> ResendEvents

\* ------------------------------------------------------------------ next-state relation
AbsEv(s, ev) == IF ev.k \in {"Incoming", "Preload"} THEN [ev EXCEPT !.m = Abs(s, ev.m)] ELSE ev

Enabled(s, ev) ==
    /\ ev.k \in {"Incoming", "Preload"} => (s.nIn + ev.m.rs >= 1 /\ (ev.m.rn # -99 => s.nIn + ev.m.rn >= 1))
    /\ ev.k = "Incoming" => s.inbuf = <<>>           \* buffered frames are consumed first
    /\ ev.k = "Preload" => (IsConnected(s.cur) /\ Len(s.inbuf) < 1)
    /\ ev.k = "Consume" => s.inbuf # <<>>
    /\ ev.k = "Send" => s.nOut < MaxOut

Bounded(s) == s.nIn <= MaxIn /\ s.nOut <= MaxOut /\ s.ct <= MaxEp /\ Cardinality(DOMAIN s.cur.stash) <= MaxStash

ObsOf(s0, ev, s1) == Obs(Post(s0), ev, s1.out, s1.cb, s1.tm, Post(s1), s1.cfg)

Do(ev) ==
    /\ Enabled(eng, ev)
    /\ Bounded(Step(eng, AbsEv(eng, ev)))
    /\ eng' = Step(eng, AbsEv(eng, ev))
    /\ lastEv' = AbsEv(eng, ev)
    /\ aux' = AuxNext(aux, ObsOf(eng, AbsEv(eng, ev), Step(eng, AbsEv(eng, ev))))

Init == /\ eng = NewEngine(McCfg, 1, 1, <<>>)
        /\ aux = AuxInit
        /\ lastEv = [k |-> "Init"]

Run == \E ev \in Alphabet : Do(ev)
Next == Run

Spec == Init /\ [][Next]_vars

\* the logs of the last step and the last event are outputs, not state
View == <<[eng EXCEPT !.out = <<>>, !.cb = <<>>, !.tm = <<>>], aux>>

\* ------------------------------------------------------------------ properties (as action properties)
O == ObsOf(eng, lastEv', eng')

\* Known findings (DESIGN 5.1, /verif/KNOWN_FINDINGS.json): clauses the unchanged design is known to
\* violate, each restricted to the situation in which it does, so that TLC keeps checking
\* everything else.  The same situations are the signatures matched on real traces.
Known(p, c, o) ==
    CASE p = "C04" /\ c = "keepsEarly" ->
            \* KF-T: a message above the expected number that arrives while the requested range is
            \* just completing is dropped with the recovery state when a hole remains below it
            o.pre.st \in Recovering /\ o.post.st \notin Recovering
      [] p = "C20" /\ c = "recoveryUndisturbed" ->
            o.pre.st \in Recovering /\ o.post.st \notin Recovering
      [] p = "C08" /\ c \in {"deliverInsideLogon", "oneLogoutPerPeriod"} ->
            \* KF-O: frames still buffered when the connection ends are processed after OnLogout
            o.pre.inbuf > 0
      [] p = "C20" /\ c = "disconnectOnSecondSilence" -> o.pre.inbuf > 0
      [] OTHER -> FALSE

Holds(p, fails, o) == \A c \in fails : Known(p, c, o)

P_C01 == [][Holds("C01", C01_Fails(aux, O), O)]_vars
P_C03 == [][Holds("C03", C03_Fails(aux, O), O)]_vars
P_C04 == [][Holds("C04", C04_Fails(aux, O), O)]_vars
P_C06 == [][Holds("C06", C06_Fails(aux, O), O)]_vars
P_C07 == [][Holds("C07", C07_Fails(aux, O), O)]_vars
P_C08 == [][Holds("C08", C08_Fails(aux, O), O)]_vars
P_C20 == [][Holds("C20", C20_Fails(aux, O), O)]_vars
P_C09 == [][Holds("C09", C09_Fails(aux, O), O)]_vars
=============================================================================
