----------------------------- MODULE WireTrace -----------------------------
(* Trace validation for C11: each line = one wire message (ground truth of its fields as built by   *)
(* the case generator) and what ParseMessageWithDataDictionary exposed for it.                      *)
EXTENDS Wire, Json
VARIABLE l
Trace == ndJsonDeserialize("trace.ndjson")
Pairs(q) == [i \in DOMAIN q |-> <<q[i][1], q[i][2]>>]
CaseOf(r) == [fields |-> Pairs(r.fields), lead |-> r.lead, delta |-> r.delta, dict |-> r.dict, xml |-> r.xml, gidx |-> r.gidx]
ObsOf(r) == [ok |-> r.obs.ok, hdr |-> Pairs(r.obs.hdr), body |-> Pairs(r.obs.body), trl |-> Pairs(r.obs.trl),
             order |-> Pairs(r.obs.order), bytesSame |-> r.obs.bytesSame]
TraceInit == l = 1 /\ t = 8 /\ d = "none"
TraceStep == /\ l <= Len(Trace) /\ l' = l + 1 /\ UNCHANGED <<t, d>>
             /\ LET bad == Fails(CaseOf(Trace[l]), ObsOf(Trace[l])) IN
                IF bad = {} THEN TRUE ELSE PrintT(<<"MISMATCH", l, bad>>)
TraceSpec == TraceInit /\ [][TraceStep]_<<l, t, d>>
AllConsumed == TLCGet("stats").diameter = Len(Trace) + 1
=============================================================================
