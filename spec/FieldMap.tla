------------------------------ MODULE FieldMap ------------------------------
(***************************************************************************)
(* Messages as three field maps (header, body, trailer) under the public   *)
(* mutation API of field_map.go / message.go, and what C10 says about the  *)
(* bytes Message.build produces for them.                                  *)
(* Abstract content of a section: function tag -> entry, an entry being    *)
(*   [g |-> FALSE, v |-> text]            a plain field with its value     *)
(*   [g |-> TRUE,  es |-> <<entry..>>]    a repeating group: each entry a  *)
(*                                        sequence of <<tag, text>> pairs  *)
(* Apply(m, op) is the effect of one API call; Expected(m) is the bag of   *)
(* (tag, value) pairs that must appear in the built bytes, each once.      *)
(***************************************************************************)
EXTENDS Integers, Sequences, FiniteSets, TLC, Bags

Secs == {"h", "b", "t"}
Plain(v) == [g |-> FALSE, v |-> v, es |-> <<>>]
GroupOf(es) == [g |-> TRUE, v |-> "", es |-> es]

Put(f, k, e) == [x \in (DOMAIN f) \cup {k} |-> IF x = k THEN e ELSE f[x]]
Del(f, k) == [x \in (DOMAIN f) \ {k} |-> f[x]]

\* a fresh message with BeginString and MsgType set (Message.build needs MsgType)
NewMsg == [h |-> (8 :> Plain("FIX.4.2")) @@ (35 :> Plain("D")), b |-> <<>>, t |-> <<>>]

\* op: [k |-> "Set", s, tag, v] | [k |-> "Remove", s, tag] | [k |-> "Clear", s] | [k |-> "SetGroup", s, tag, es]
Apply(m, op) ==
    CASE op.k = "Set" -> [m EXCEPT ![op.s] = Put(@, op.tag, Plain(op.v))]
      [] op.k = "Remove" -> [m EXCEPT ![op.s] = Del(@, op.tag)]
      [] op.k = "Clear" -> [m EXCEPT ![op.s] = <<>>]
      [] op.k = "SetGroup" -> [m EXCEPT ![op.s] = Put(@, op.tag, GroupOf(op.es))]
      [] OTHER -> m

RECURSIVE SeqToBag(_)
SeqToBag(s) == IF s = <<>> THEN EmptyBag ELSE SetToBag({Head(s)}) (+) SeqToBag(Tail(s))
RECURSIVE Flat(_)
Flat(ss) == IF ss = <<>> THEN <<>> ELSE Head(ss) \o Flat(Tail(ss))

CountText(n) == CASE n = 0 -> "0" [] n = 1 -> "1" [] n = 2 -> "2" [] n = 3 -> "3"

\* the (tag, value) pairs one entry contributes to the bytes
Pairs(tag, e) == IF e.g THEN <<<<tag, CountText(Len(e.es))>>>> \o Flat(e.es) ELSE <<<<tag, e.v>>>>

RECURSIVE SecBag(_, _)
SecBag(f, ks) == IF ks = {} THEN EmptyBag
                 ELSE LET k == CHOOSE x \in ks : TRUE IN SeqToBag(Pairs(k, f[k])) (+) SecBag(f, ks \ {k})

\* BodyLength (9) and CheckSum (10) are produced by build itself and are judged separately
Expected(m) == SecBag(m.h, DOMAIN m.h \ {9}) (+) SecBag(m.b, DOMAIN m.b) (+) SecBag(m.t, DOMAIN m.t \ {10})

\* ------------------------------------------------------------------ what C10 demands of the built bytes
\* obs: [fields |-> <<<<tag, value>>...>> in wire order (independent scan), lenOK, sumOK, reparse, copySame]
HeaderTags == {8, 9, 35, 49, 50, 56, 57}
TrailerTags == {93, 89, 10}
SecOfTag(t) == IF t \in HeaderTags THEN "h" ELSE IF t \in TrailerTags THEN "t" ELSE "b"
Rank(s) == CASE s = "h" -> 1 [] s = "b" -> 2 [] s = "t" -> 3

Fails(m, obs) ==
    LET fs == obs.fields
        n == Len(fs)
        payload == SelectSeq(fs, LAMBDA p : p[1] # 9 /\ p[1] # 10)
    IN {c \in {"everyFieldOnce", "leadingFields", "sectionOrder", "checkSumLast", "bodyLength", "checkSum",
               "reparse", "copy"} :
          ~ CASE c = "everyFieldOnce" -> SeqToBag(payload) = Expected(m)
              [] c = "leadingFields" -> n >= 3 /\ fs[1][1] = 8 /\ fs[2][1] = 9 /\ fs[3][1] = 35
              [] c = "sectionOrder" -> \A i, j \in 1..n : i < j => Rank(SecOfTag(fs[i][1])) <= Rank(SecOfTag(fs[j][1]))
              [] c = "checkSumLast" -> n >= 1 /\ fs[n][1] = 10 /\ \A i \in 1..(n - 1) : fs[i][1] # 10
              [] c = "bodyLength" -> obs.lenOK
              [] c = "checkSum" -> obs.sumOK
              [] c = "reparse" -> obs.reparse
              [] c = "copy" -> obs.copySame}

\* ------------------------------------------------------------------ bounded model (M/G)
CONSTANTS Values, GroupInsts
VARIABLES msg, lastOp
vars == <<msg, lastOp>>

Tags == [h |-> {50}, b |-> {11, 55}, t |-> {93}]
AllOps == UNION {[k : {"Set"}, s : {s}, tag : Tags[s], v : Values] : s \in Secs}
     \cup UNION {[k : {"Remove"}, s : {s}, tag : Tags[s]] : s \in Secs}
     \cup [k : {"Clear"}, s : Secs]
     \cup [k : {"SetGroup"}, s : {"b"}, tag : {453}, es : GroupInsts]
     \cup {[k |-> "Remove", s |-> "b", tag |-> 453], [k |-> "Set", s |-> "b", tag |-> 453, v |-> "1"]}
     \cup {[k |-> "Set", s |-> "h", tag |-> 35, v |-> "8"]}

Do(op) == msg' = (IF op.k = "Clear" /\ op.s = "h"
                  THEN [Apply(msg, op) EXCEPT !.h = (8 :> Plain("FIX.4.2")) @@ (35 :> Plain("D"))]   \* the driver re-sets 8 and 35
                  ELSE Apply(msg, op)) /\ lastOp' = op
Init == msg = NewMsg /\ lastOp = [k |-> "Init"]
Step == \E op \in AllOps : Do(op)
Next == Step
Spec == Init /\ [][Next]_vars
View == msg

\* the model's own serialisation rule satisfies the demands (sanity of Expected/Fails): a reference
\* serialiser that writes header (8, 9, 35 first), body, trailer, 10 last
TypeOK == /\ DOMAIN msg.h \subseteq HeaderTags /\ 8 \in DOMAIN msg.h /\ 35 \in DOMAIN msg.h
          /\ DOMAIN msg.t \subseteq TrailerTags
          /\ \A s \in Secs : \A k \in DOMAIN msg[s] : msg[s][k].g => s = "b"
BagSize == BagCardinality(Expected(msg)) >= 2
=============================================================================
