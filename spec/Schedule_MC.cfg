SPECIFICATION Spec
CONSTANTS
  Times <- MCTimes
  DaySets <- MCDaySets
  Grid <- MCGrid
INVARIANTS Symmetric ImpliesInRange Reflexive Transitive Separated Convex
CHECK_DEADLOCK FALSE
