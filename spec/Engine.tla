------------------------------- MODULE Engine -------------------------------
(***************************************************************************)
(* The QuickFIX/Go session engine as a transition function.                *)
(*                                                                         *)
(* One record `s' holds everything the engine remembers (session state     *)
(* value, store, send queue, connection, flags) plus three per-step        *)
(* accumulators: s.out (what was put on the outbound channel, with "CLOSE" *)
(* when the channel is closed), s.cb (application callbacks in order) and  *)
(* s.tm (timer re-arms).  Every operator takes s and returns the new s, so *)
(* the text below reads like the Go code it transcribes:                   *)
(*   session_state.go  (dispatch, setState, handleDisconnectState)         *)
(*   session.go        (send paths, handleLogon, verifySelect, doReject)   *)
(*   in_session.go     (per message type handling, processReject, resend)  *)
(*   resend_state.go logon_state.go logout_state.go pending_timeout.go     *)
(* Quirks of the implementation are modelled as the code has them and are  *)
(* tagged Q-<letter> (DESIGN.md section 11).                               *)
(***************************************************************************)
EXTENDS Integers, Sequences, FiniteSets, SequencesExt, TLC

\* ---------------------------------------------------------------- state values
\* A session state value (sessionState in Go).  Resend carries its data; `p' is the
\* pendingTimeout wrapper.
\* alloc: the Go stash map has been allocated (a nil map is allocated on a *copy* in processReject,
\* so the receiver of resendState.FixMsgIn does not see the first entry - Q-U)
SV(n) == [n |-> n, p |-> FALSE, stash |-> <<>>, rrEnd |-> 0, rrCur |-> 0, alloc |-> FALSE]
Latent == SV("latent")
LogonSt == SV("logon")
LogoutSt == SV("logout")
InSess == SV("inSession")
NotTime == SV("notSessionTime")

IsLoggedOn(v) == v.n \in {"inSession", "resend"}
IsConnected(v) == v.n \in {"inSession", "resend", "logon", "logout"}
IsSessionTime(v) == v.n # "notSessionTime"
\* `switch session.State.(type) { case resendState:' is true only for the bare value 
IsBareResend(v) == v.n = "resend" /\ ~v.p

StashKeys(v) == DOMAIN v.stash
WithStash(v, k, m) == [v EXCEPT !.alloc = TRUE,
                                 !.stash = [x \in (DOMAIN v.stash) \cup {k} |-> IF x = k THEN m ELSE v.stash[x]]]
WithoutStash(v, k) == [v EXCEPT !.stash = [x \in (DOMAIN v.stash) \ {k} |-> v.stash[x]]]

\* ---------------------------------------------------------------- configuration
\* cfg: [role, bs, resetOnLogon, resetOnLogout, resetOnDisconnect, refreshOnLogon, chunk,
\*       persist, checkLatency, hbOverride, hbCfg, resetSeqTime, schedule]
\* bs is the BeginString as a number: 40 41 42 43 44, 50 for FIXT.1.1 (string order of the code)
DefaultCfg == [role |-> "acc", bs |-> 42, resetOnLogon |-> FALSE, resetOnLogout |-> FALSE,
               resetOnDisconnect |-> FALSE, refreshOnLogon |-> FALSE, chunk |-> 0, persist |-> TRUE,
               checkLatency |-> TRUE, hbOverride |-> FALSE, hbCfg |-> 30, resetSeqTime |-> FALSE,
               schedule |-> FALSE]

InfEnd(cfg) == IF cfg.bs < 42 THEN 999999 ELSE 0

\* ---------------------------------------------------------------- the engine record
NewEngine(cfg, nIn, nOut, sent) ==
    [cfg |-> cfg, cur |-> Latent,
     nIn |-> nIn, nOut |-> nOut, sent |-> sent, ct |-> 0,
     q |-> <<>>, sentReset |-> FALSE, conn |-> FALSE,
     hb |-> IF cfg.role = "init" \/ cfg.hbOverride THEN cfg.hbCfg ELSE 0,
     pstop |-> FALSE, stopped |-> FALSE, inbuf |-> <<>>,
     out |-> <<>>, cb |-> <<>>, tm |-> <<>>]

ClearLogs(s) == [s EXCEPT !.out = <<>>, !.cb = <<>>, !.tm = <<>>]

\* ---------------------------------------------------------------- outbound records
\* one shape for every outbound message: t type, seq MsgSeqNum, pd PossDupFlag=Y,
\* a b c integers and x a string whose meaning depends on t:
\*   A logon   a = HeartBtInt              x = "Y" iff ResetSeqNumFlag=Y
\*   5 logout                              x = "T" iff a Text is given
\*   0 heartbeat                           x = TestReqID
\*   1 testreq                             x = TestReqID
\*   2 resend request  a = BeginSeqNo  b = EndSeqNo
\*   4 sequence reset  a = NewSeqNo        x = "Y" gap fill
\*   3 reject   a = SessionRejectReason (-1 absent)  b = RefTagID (0 absent)  c = RefSeqNum (0 absent)
\*   j business reject a = BusinessRejectReason       c = RefSeqNum
\*   D application     x = body id;   replays: pd, c = 1 (OrigSendingTime = original SendingTime) + 2 (body bytes identical)
\* wf: BodyLength and CheckSum correct, exactly one of each (always expected);
\* rt: routing header fields of a Reject in tag order (expected: the sender's, reversed)
Out(t, a, b, c, x) == [t |-> t, seq |-> 0, pd |-> FALSE, a |-> a, b |-> b, c |-> c, x |-> x, wf |-> TRUE, rt |-> ""]
RoutingReversed == "49=ENG|56=PEER|50=ESUB|57=PSUB|143=PLOC|115=DLV|128=OBO"

Cb(k, t, seq, n) == [k |-> k, t |-> t, seq |-> seq, n |-> n]

StoreReset(s) == [s EXCEPT !.nIn = 1, !.nOut = 1, !.sent = <<>>, !.ct = @ + 1]

PutSent(s, n, rec) == [s EXCEPT !.sent = [x \in (DOMAIN s.sent) \cup {n} |-> IF x = n THEN rec ELSE s.sent[x]]]

\* ---------------------------------------------------------------- send paths (session.go)
\* sendQueued: the outbound channel of the synchronous driver never refuses, so a flush
\* transmits the whole queue in order unless the connection is gone.
Flush(s) ==
    IF s.conn
    THEN [s EXCEPT !.out = @ \o s.q, !.q = <<>>,
                   !.tm = @ \o [i \in 1..Len(s.q) |-> <<"hb", s.hb * 1000>>]]
    ELSE s

\* prepMessageForSend: number, ToAdmin/ToApp, reset on Logon 141=Y, persist.
\* m is an outbound record; dns = the application refuses (ErrDoNotSend) an application message.
\* ref = the application will decline to resend it later.  Returns [s, ok, m].
Prep(s, m, dns, ref) ==
    LET admin == m.t \in {"A", "5", "0", "1", "2", "3", "4"}
        s1 == [s EXCEPT !.cb = Append(@, Cb(IF admin THEN "ToAdmin" ELSE "ToApp", IF admin THEN m.t ELSE "D", s.nOut, s.nIn))]
    IN IF ~admin /\ dns THEN [s |-> s1, ok |-> FALSE, m |-> m]
       ELSE
       LET s2 == IF m.t = "A" /\ m.x = "Y" THEN [StoreReset(s1) EXCEPT !.sentReset = TRUE] ELSE s1
           mm == [m EXCEPT !.seq = s2.nOut]
           rec == [k |-> IF admin THEN "admin" ELSE "app", x |-> IF admin THEN "" ELSE m.x, ref |-> ref,
                   o |-> IF admin THEN Out(m.t, 0, 0, 0, "") ELSE mm]        \* administrative messages are never replayed
           s3 == IF s2.cfg.persist THEN PutSent(s2, s2.nOut, rec) ELSE s2
       IN [s |-> [s3 EXCEPT !.nOut = @ + 1], ok |-> TRUE, m |-> mm]

QueueForSend(s, m, dns, ref) ==
    LET p == Prep(s, m, dns, ref) IN IF p.ok THEN [p.s EXCEPT !.q = Append(@, p.m)] ELSE p.s

\* sendInReplyTo: consults session.State, i.e. the state value registered *before* the
\* handler returns (s.cur).
SendReply(s, m) ==
    IF ~IsLoggedOn(s.cur) THEN QueueForSend(s, m, FALSE, FALSE)
    ELSE LET p == Prep(s, m, FALSE, FALSE) IN Flush([p.s EXCEPT !.q = Append(@, p.m)])

DropAndSend(s, m) ==
    LET p == Prep(s, m, FALSE, FALSE) IN Flush([p.s EXCEPT !.q = <<p.m>>])

DropAndReset(s) == StoreReset([s EXCEPT !.q = <<>>])

\* EnqueueBytesAndSend (replayed messages and gap fills: not numbered, not stored)
EnqueueRaw(s, m) == Flush([s EXCEPT !.q = Append(@, m)])

SendLogout(s, text) == SendReply(s, Out("5", 0, 0, 0, IF text THEN "T" ELSE ""))

\* doReject: layout depends on BeginString (session.go doReject)
RejectMsg(s, m, rej) ==
    LET refseq == IF m.seqc = "ok" THEN m.seq ELSE 0 IN
    IF s.cfg.bs >= 42
    THEN IF rej.biz THEN Out("j", rej.reason, 0, refseq, "")
         ELSE Out("3", IF rej.reason > 11 /\ s.cfg.bs = 42 THEN -1 ELSE rej.reason, rej.tag, refseq, "")
    ELSE Out("3", -1, 0, refseq, "")

DoReject(s, m, rej) == SendReply(s, [RejectMsg(s, m, rej) EXCEPT !.rt = RoutingReversed])

\* sendResendRequest: returns [s, v] (the next resend state value, empty stash)
SendRR(s, begin, end) ==
    LET chunkEnd == IF s.cfg.chunk # 0 THEN begin + s.cfg.chunk - 1 ELSE end
        cur == IF chunkEnd < end THEN chunkEnd ELSE 0
        wireEnd == IF chunkEnd < end THEN chunkEnd ELSE InfEnd(s.cfg)
        v == [SV("resend") EXCEPT !.rrEnd = end, !.rrCur = cur, !.alloc = TRUE]   \* stash map allocated here
    IN [s |-> SendReply(s, Out("2", begin, wireEnd, 0, "")), v |-> v]

\* ---------------------------------------------------------------- rejects
NoRej == [k |-> "ok", reason |-> 0, tag |-> 0, biz |-> FALSE]
Rej(reason, tag) == [k |-> "rej", reason |-> reason, tag |-> tag, biz |-> FALSE]
BizRej(reason) == [k |-> "rej", reason |-> reason, tag |-> 0, biz |-> TRUE]
Special(k) == [k |-> k, reason |-> 0, tag |-> 0, biz |-> FALSE]

CheckBeginString(s, m) == IF m.bs = "ok" THEN NoRej ELSE Special("wrongBS")

CheckCompID(s, m) ==
    CASE m.cid = "nosender"    -> Rej(1, 49)
      [] m.cid = "notarget"    -> Rej(1, 56)
      [] m.cid = "emptytarget" -> Rej(4, 56)
      [] m.cid = "emptysender" -> Rej(4, 49)
      [] m.cid = "wrong"       -> Rej(9, 0)
      [] OTHER                 -> NoRej

CheckSendingTime(s, m) ==
    IF ~s.cfg.checkLatency THEN NoRej
    ELSE CASE m.st = "missing" -> Rej(1, 52)
           [] m.st = "bad"     -> Rej(6, 52)
           [] m.st \in {"stale", "future"} -> Rej(10, 0)
           [] OTHER            -> NoRej

SeqUnreadable(m) ==
    CASE m.seqc = "missing" -> Rej(1, 34)
      [] m.seqc \in {"garbled", "empty"} -> Rej(6, 34)
      [] OTHER -> NoRej

CheckTooLow(s, m) ==
    IF m.seqc # "ok" THEN SeqUnreadable(m)
    ELSE IF m.seq < s.nIn THEN Special("tooLow") ELSE NoRej

CheckTooHigh(s, m) ==
    IF m.seqc # "ok" THEN SeqUnreadable(m)
    ELSE IF m.seq > s.nIn THEN Special("tooHigh") ELSE NoRej

IsAdminType(t) == t \in {"A", "5", "0", "1", "2", "3", "4"}

\* verifyMsgAgainstAppImpl: validator, then FromAdmin/FromApp and whatever it answers
\* returns [s, rej]
\* (without a dictionary the validator still refuses a field without a value, in wire order)
VerifyApp(s, m) ==
    IF m.cid = "emptysender" THEN [s |-> s, rej |-> Rej(4, 49)]
    ELSE IF m.cid = "emptytarget" THEN [s |-> s, rej |-> Rej(4, 56)]
    ELSE IF m.seqc = "empty" THEN [s |-> s, rej |-> Rej(4, 34)]
    ELSE IF m.val = "bad" THEN [s |-> s, rej |-> Rej(4, 58)]
    ELSE LET s1 == [s EXCEPT !.cb = Append(@, Cb(IF IsAdminType(m.t) THEN "FromAdmin" ELSE "FromApp",
                                                   IF IsAdminType(m.t) THEN m.t ELSE "D",
                                                   IF m.seqc = "ok" THEN m.seq ELSE 0, s.nIn))]
         IN [s |-> s1,
             rej |-> CASE m.app = "rej" -> Rej(5, 55)
                       [] m.app = "biz" -> BizRej(3)
                       [] m.app = "rejlogon" -> Special("rejlogon")
                       [] OTHER -> NoRej]

\* verifySelect(msg, checkTooHigh, checkTooLow, checkAppImpl): first failure wins
VerifySelect(s, m, high, low, app) ==
    LET r1 == CheckBeginString(s, m)
        r2 == CheckCompID(s, m)
        r3 == IF IsBareResend(s.cur) THEN NoRej ELSE CheckSendingTime(s, m)     
        r4 == IF low THEN CheckTooLow(s, m) ELSE NoRej
        r5 == IF high THEN CheckTooHigh(s, m) ELSE NoRej
    IN CASE r1.k # "ok" -> [s |-> s, rej |-> r1]
         [] r2.k # "ok" -> [s |-> s, rej |-> r2]
         [] r3.k # "ok" -> [s |-> s, rej |-> r3]
         [] r4.k # "ok" -> [s |-> s, rej |-> r4]
         [] r5.k # "ok" -> [s |-> s, rej |-> r5]
         [] app         -> VerifyApp(s, m)
         [] OTHER       -> [s |-> s, rej |-> NoRej]

\* handlers return [s, nx]: nx is the state value the Go method returns
Ret(s, nx) == [s |-> s, nx |-> nx]

InitiateLogout(s, text) == SendLogout(s, text)        \* + LogoutTimeout AfterFunc (not observed)

\* in_session.go doTargetTooLow
DoTargetTooLow(s, m) ==
    CASE m.pd = "bad" -> Ret(DoReject(s, m, Rej(6, 43)), InSess)
      [] m.pd \in {"none", "N"} -> Ret(InitiateLogout(s, TRUE), LogoutSt)
      [] m.ost = "none" -> Ret(DoReject(s, m, Rej(1, 122)), InSess)
      [] m.ost = "bad"  -> Ret(DoReject(s, m, Rej(6, 122)), InSess)
         \* SendingTime unreadable: falls into processReject's default branch, which
         \* advances the expected number on a too-low message (Q-P)
      [] m.st = "missing" -> Ret([DoReject(s, m, BizRej(8)) EXCEPT !.nIn = @ + 1], InSess)   \* GetField: ConditionallyRequiredFieldMissing
      [] m.st = "bad"     -> Ret([DoReject(s, m, Rej(6, 52)) EXCEPT !.nIn = @ + 1], InSess)
      [] m.ost = "after" -> Ret(InitiateLogout(DoReject(s, m, Rej(10, 0)), FALSE), LogoutSt)
      [] OTHER -> Ret(s, InSess)

\* in_session.go processReject
ProcessReject(s, m, rej) ==
    CASE rej.k = "tooHigh" ->
            IF IsBareResend(s.cur)
            THEN Ret(s, WithStash(s.cur, m.seq, m))               \* already recovering: keep it
            ELSE LET r == SendRR(s, s.nIn, m.seq - 1)             
                 IN Ret(r.s, WithStash(r.v, m.seq, m))
      [] rej.k = "tooLow" -> DoTargetTooLow(s, m)
      [] rej.k = "wrongBS" -> Ret(InitiateLogout(s, TRUE), LogoutSt)
      [] rej.k = "rejlogon" ->                                   \* RejectLogon outside handleLogon: reason 0
            Ret([DoReject(s, m, Rej(0, 0)) EXCEPT !.nIn = @ + 1], InSess)
      [] rej.reason \in {9, 10} /\ ~rej.biz ->
            Ret(InitiateLogout(DoReject(s, m, rej), FALSE), LogoutSt)
      [] OTHER -> Ret([DoReject(s, m, rej) EXCEPT !.nIn = @ + 1], InSess)

\* ---------------------------------------------------------------- Logon (session.go handleLogon)
\* returns [s, err]: err is a reject record, k = "ok" on success
HandleLogon(s, m) ==
    LET acc == s.cfg.role = "acc"
        reset0 == acc /\ s.cfg.resetOnLogon
        va == VerifyApp(s, m)                                    \* before the identity checks
    IN IF s.cfg.bs = 50 /\ m.dav = "none" THEN [s |-> s, err |-> Rej(1, 1137)]
       ELSE IF va.rej.k # "ok" THEN [s |-> va.s, err |-> va.rej]
       ELSE
       \* identity and time are checked before anything is reset (the sequence number after it)
       LET vs0 == VerifySelect(va.s, m, FALSE, FALSE, FALSE) IN
       IF vs0.rej.k # "ok" THEN [s |-> va.s, err |-> vs0.rej]
       ELSE
       LET reset == reset0 \/ (m.rsf = "Y" /\ ~s.sentReset)
           s1 == IF reset THEN StoreReset(va.s) ELSE va.s
           vs == VerifySelect(s1, m, FALSE, TRUE, FALSE)
       IN IF vs.rej.k # "ok" THEN [s |-> s1, err |-> vs.rej]
          ELSE
          LET s2 == IF acc /\ ~s1.cfg.hbOverride /\ m.hb # 0 THEN [s1 EXCEPT !.hb = m.hb] ELSE s1
              \* a Logon echoing the flag of a reset we started ourselves (ResetSeqTime) is not answered again
              s3 == IF acc /\ ~(m.rsf = "Y" /\ s2.sentReset)
                    THEN DropAndSend(s2, Out("A", s2.hb, 0, 0, IF m.rsf = "Y" THEN "Y" ELSE ""))
                    ELSE s2
              s4 == [s3 EXCEPT !.sentReset = FALSE,
                               !.tm = Append(@, <<"peer", s3.hb * 1200>>),
                               !.cb = Append(@, Cb("OnLogon", "", 0, s3.nIn))]
              th == CheckTooHigh(s4, m)
          IN IF th.k # "ok" THEN [s |-> s4, err |-> th]
             ELSE [s |-> [s4 EXCEPT !.nIn = @ + 1], err |-> NoRej]

\* ---------------------------------------------------------------- resend replies (in_session.go)
GapFill(b, e) == [Out("4", e, 0, 0, "Y") EXCEPT !.seq = b, !.pd = TRUE]

SendGapFill(s, b, e) ==
    EnqueueRaw([s EXCEPT !.cb = Append(@, Cb("ToAdmin", "4", b, s.nIn))], GapFill(b, e))

\* iterate the stored messages ks[i..] with the seqNum / nextSeqNum bookkeeping of resendMessages
RECURSIVE ResendLoop(_, _, _, _, _)
ResendLoop(s, ks, i, cur, nxt) ==
    IF i > Len(ks)
    THEN IF cur # nxt THEN SendGapFill(s, cur, nxt) ELSE s
    ELSE LET n == ks[i]
             rec == s.sent[n]
         IN IF rec.k = "admin" THEN ResendLoop(s, ks, i + 1, cur, n + 1)
            ELSE LET s1 == [s EXCEPT !.cb = Append(@, Cb("ToApp", "D", n, s.nIn))]     \* session.resend
                 IN IF rec.ref THEN ResendLoop(s1, ks, i + 1, cur, n + 1)              \* application declines
                    ELSE LET s2 == IF cur # n THEN SendGapFill(s1, cur, n) ELSE s1
                             \* the stored message again, PossDup; for an application message the driver
                             \* reports in c: 1 OrigSendingTime = original SendingTime, 2 body identical
                             rp == IF rec.o.t = "D" THEN [rec.o EXCEPT !.pd = TRUE, !.c = 3] ELSE [rec.o EXCEPT !.pd = TRUE]
                         IN ResendLoop(EnqueueRaw(s2, rp), ks, i + 1, n + 1, n + 1)

ResendMessages(s, b, e) ==
    IF ~s.cfg.persist THEN (IF b > e THEN s ELSE SendGapFill(s, b, e + 1))
    ELSE LET ks == SetToSortSeq({n \in DOMAIN s.sent : b <= n /\ n <= e}, LAMBDA x, y : x < y)
         IN ResendLoop(s, ks, 1, b, b)

HandleResendRequest(s, m) ==
    LET vs == VerifySelect(s, m, FALSE, FALSE, TRUE) IN
    IF vs.rej.k # "ok" THEN ProcessReject(vs.s, m, vs.rej)
    ELSE IF m.b = -1 THEN ProcessReject(vs.s, m, Rej(1, 7))
    ELSE IF m.e = -1 THEN ProcessReject(vs.s, m, Rej(1, 16))
    ELSE LET s1 == vs.s
             bs == s1.cfg.bs
             e1 == IF (bs >= 42 /\ m.e = 0) \/ (bs <= 42 /\ m.e = 999999) \/ m.e >= s1.nOut
                   THEN s1.nOut - 1 ELSE m.e
             s2 == ResendMessages(s1, m.b, e1)
         IN IF CheckTooLow(s2, m).k # "ok" \/ CheckTooHigh(s2, m).k # "ok" THEN Ret(s2, InSess)
            ELSE Ret([s2 EXCEPT !.nIn = @ + 1], InSess)

HandleSequenceReset(s, m) ==
    IF m.gf = "bad" THEN ProcessReject(s, m, Rej(6, 123))
    ELSE LET g == m.gf = "Y"
             vs == VerifySelect(s, m, g, g, TRUE)
         IN IF vs.rej.k # "ok" THEN ProcessReject(vs.s, m, vs.rej)
            ELSE LET s1 == vs.s IN
                 CASE m.newseq > s1.nIn -> Ret([s1 EXCEPT !.nIn = m.newseq], InSess)
                   [] m.newseq > 0 /\ m.newseq < s1.nIn ->
                        Ret(DoReject(s1, m, Rej(5, 0)), InSess)       \* nothing changes
                   [] OTHER -> Ret(s1, InSess)                         \* equal or absent: nothing

HandleTestRequest(s, m) ==
    LET vs == VerifySelect(s, m, TRUE, TRUE, TRUE) IN
    IF vs.rej.k # "ok" THEN ProcessReject(vs.s, m, vs.rej)
    ELSE LET s1 == IF m.trid # "" THEN SendReply(vs.s, Out("0", 0, 0, 0, m.trid)) ELSE vs.s
         IN Ret([s1 EXCEPT !.nIn = @ + 1], InSess)

HandleLogout(s, m) ==
    LET vs == VerifySelect(s, m, FALSE, FALSE, TRUE) IN
    IF vs.rej.k # "ok" THEN ProcessReject(vs.s, m, vs.rej)
    ELSE LET s1 == IF IsLoggedOn(vs.s.cur) THEN SendLogout(vs.s, FALSE) ELSE vs.s IN
         IF s1.cfg.resetOnLogout THEN Ret(DropAndReset(s1), Latent)
         ELSE IF CheckTooLow(s1, m).k # "ok" \/ CheckTooHigh(s1, m).k # "ok" THEN Ret(s1, Latent)
         ELSE Ret([s1 EXCEPT !.nIn = @ + 1], Latent)

\* inSession.FixMsgIn
InSessionIn(s, m) ==
    CASE m.t = "A" -> LET h == HandleLogon(s, m) IN
                      IF h.err.k # "ok" THEN Ret(InitiateLogout(h.s, FALSE), LogoutSt)
                      ELSE Ret(h.s, InSess)
      [] m.t = "5" -> HandleLogout(s, m)
      [] m.t = "2" -> HandleResendRequest(s, m)
      [] m.t = "4" -> HandleSequenceReset(s, m)
      [] m.t = "1" -> HandleTestRequest(s, m)
      [] OTHER -> LET vs == VerifySelect(s, m, TRUE, TRUE, TRUE) IN
                  IF vs.rej.k # "ok" THEN ProcessReject(vs.s, m, vs.rej)
                  ELSE Ret([vs.s EXCEPT !.nIn = @ + 1], InSess)

\* resend_state.go FixMsgIn; r is the receiver (a bare resend value).  The Go stash is a map
\* shared by reference between the receiver and a state derived from it in processReject.
RECURSIVE DrainStash(_, _, _)
DrainStash(s, r, nx) ==
    IF s.nIn \in DOMAIN r.stash
    THEN LET msg == r.stash[s.nIn]
             r1 == WithoutStash(r, s.nIn)
             \* session.State still holds the registered value, whose map is the one being drained
             h == InSessionIn([s EXCEPT !.cur.stash = r1.stash], msg)
             \* a drained message that is kept again (too high) lands in the shared map
             r2 == IF h.nx.n = "resend" /\ IsBareResend(s.cur) /\ r1.alloc THEN [r1 EXCEPT !.stash = h.nx.stash] ELSE r1
             nx2 == h.nx
         IN IF ~IsLoggedOn(nx2) THEN Ret(h.s, nx2) ELSE DrainStash(h.s, r2, nx2)
    ELSE Ret(s, nx)

ResendIn(s, r, m) ==
    LET h == InSessionIn(s, m)
        \* aliasing: when processReject kept the current (bare) state, the receiver sees the new entry
        r1 == IF h.nx.n = "resend" /\ IsBareResend(s.cur) /\ r.alloc THEN [r EXCEPT !.stash = h.nx.stash] ELSE r
        s1 == h.s
    IN IF ~IsLoggedOn(h.nx) THEN h
       ELSE IF r1.rrCur # 0 /\ r1.rrCur < s1.nIn
            THEN LET q == SendRR(s1, s1.nIn, r1.rrEnd) IN Ret(q.s, [q.v EXCEPT !.stash = r1.stash, !.alloc = r1.alloc])
       ELSE IF m.gf = "bad" THEN Ret(s1, Latent)      \* resendState.FixMsgIn re-reads GapFillFlag: unreadable -> handleStateError
       ELSE IF m.gf = "Y" /\ r1.rrCur # 0 /\ r1.rrCur = s1.nIn
            THEN LET q == SendRR(s1, s1.nIn, r1.rrEnd) IN Ret(q.s, [q.v EXCEPT !.stash = r1.stash, !.alloc = r1.alloc])
       ELSE IF r1.rrEnd >= s1.nIn THEN Ret(s1, r1)
       ELSE DrainStash(s1, r1, h.nx)

\* logout_state.go
LogoutIn(s, m) ==
    LET h == InSessionIn(s, m) IN IF h.nx.n = "latent" THEN h ELSE Ret(h.s, LogoutSt)

\* logon_state.go
ShutdownWithReason(s, incr) ==
    LET s1 == DropAndSend(s, Out("5", 0, 0, 0, "T")) IN
    Ret(IF incr THEN [s1 EXCEPT !.nIn = @ + 1] ELSE s1, Latent)

LogonIn(s, m) ==
    IF m.t # "A" THEN Ret(s, Latent)
    ELSE LET h == HandleLogon(s, m) IN
         CASE h.err.k = "ok" -> Ret(h.s, InSess)
           [] h.err.k = "rejlogon" -> ShutdownWithReason(h.s, TRUE)
           [] h.err.k = "tooLow" -> ShutdownWithReason(h.s, FALSE)
           [] h.err.k = "tooHigh" -> LET r == SendRR(h.s, h.s.nIn, m.seq - 1) IN Ret(r.s, r.v)
           [] OTHER -> Ret(h.s, Latent)

\* State.FixMsgIn with the pendingTimeout wrapper: the embedded state handles the message and
\* whatever it returns replaces the wrapper
\* (pendingTimeout.FixMsgIn makes the wrapped state current before it handles the message)
FixMsgIn(s0, m) ==
    LET s == [s0 EXCEPT !.cur.p = FALSE] IN
    CASE s.cur.n = "inSession" -> InSessionIn(s, m)
      [] s.cur.n = "resend"    -> ResendIn(s, s.cur, m)
      [] s.cur.n = "logon"     -> LogonIn(s, m)
      [] s.cur.n = "logout"    -> LogoutIn(s, m)
      [] OTHER                 -> Ret(s, s.cur)

\* ---------------------------------------------------------------- setState, disconnect, drain
RECURSIVE SetState(_, _), Drain(_), IncomingParsed(_, _)

\* handleDisconnectState + onDisconnect
Disconnect(s) ==
    LET doLogout == IsLoggedOn(s.cur) \/ s.cur.n = "logout" \/ (s.cur.n = "logon" /\ s.cfg.role = "init")
        s1 == IF doLogout THEN [s EXCEPT !.cb = Append(@, Cb("OnLogout", "", 0, s.nIn))] ELSE s
        s2 == IF s1.cfg.resetOnDisconnect THEN DropAndReset(s1) ELSE s1
        s3 == IF s2.conn THEN [s2 EXCEPT !.out = Append(@, Out("CLOSE", 0, 0, 0, "")), !.conn = FALSE] ELSE s2
        s4 == Drain(s3)                       \* Q-O: buffered frames go through Incoming in the old state
    IN [s4 EXCEPT !.inbuf = <<>>]

SetState(s, nx) ==
    IF ~IsConnected(nx)
    THEN LET s1 == IF IsConnected(s.cur) THEN Disconnect(s) ELSE s
             s2 == IF s1.pstop THEN [s1 EXCEPT !.stopped = TRUE] ELSE s1
         IN [s2 EXCEPT !.cur = nx]
    ELSE [s EXCEPT !.cur = nx]

\* stateMachine.Incoming for a frame (garbled = ParseMessage fails)
IncomingParsed(s, m) ==
    IF ~IsConnected(s.cur) THEN s
    ELSE LET s1 == IF m.t = "garbled" THEN s
                   ELSE LET h == FixMsgIn(s, m) IN SetState(h.s, h.nx)
         IN [s1 EXCEPT !.tm = Append(@, <<"peer", s1.hb * 1200>>)]

Drain(s) ==
    IF s.inbuf = <<>> THEN s
    ELSE Drain(IncomingParsed([s EXCEPT !.inbuf = Tail(@)], Head(s.inbuf)))

\* ---------------------------------------------------------------- session schedule (session_state.go CheckSessionTime)
\* Incoming, Timeout and SendAppMessages start with CheckSessionTime(time.Now()); the driver keeps the real
\* clock inside the window in which the store was created, so for them the check only ends a
\* notSessionTime state.  The ticker's check is the TimeTick event, with an instant of class
\*   "same" the window in which the store was created, "out" no window, "next" a later window.
Wake(s) == IF s.cur.n = "notSessionTime" THEN SetState(s, Latent) ELSE s

\* State.ShutdownNow: logged-on states send a Logout (no text), the others do nothing
ShutdownNow(s) == IF IsLoggedOn(s.cur) THEN SendLogout(s, FALSE) ELSE s

OnTimeTick(s0, w) ==
    LET s == ClearLogs(s0) IN
    IF ~s.cfg.schedule THEN s
    ELSE CASE w = "out" -> SetState(ShutdownNow(s), NotTime)
           [] w = "next" -> LET s1 == Wake(s) IN SetState(DropAndReset(ShutdownNow(s1)), Latent)     \* "Session reset"
           [] OTHER -> Wake(s)

\* ---------------------------------------------------------------- entry points (one per run-loop case)
OnIncoming(s0, m) == IncomingParsed(Wake(ClearLogs(s0)), m)

\* a frame placed in the inbound channel and not yet consumed
OnPreload(s0, m) == [ClearLogs(s0) EXCEPT !.inbuf = Append(@, m)]

InSessionTimeout(s, ev) ==
    CASE ev = "NeedHeartbeat" -> Ret(SendReply(s, Out("0", 0, 0, 0, "")), InSess)
      [] ev = "PeerTimeout" ->
            LET s1 == SendReply(s, Out("1", 0, 0, 0, "TEST")) IN
            Ret([s1 EXCEPT !.tm = Append(@, <<"peer", s1.hb * 1200>>)], [InSess EXCEPT !.p = TRUE])
      [] OTHER -> Ret(s, InSess)

StateTimeout(s, ev) ==
    LET v == s.cur IN
    CASE v.p -> IF ev = "PeerTimeout" THEN Ret(s, Latent) ELSE Ret(s, v)
      [] v.n = "inSession" -> InSessionTimeout(s, ev)
      [] v.n = "resend" -> LET h == InSessionTimeout(s, ev) IN
                           IF h.nx.p THEN Ret(h.s, [v EXCEPT !.p = TRUE]) ELSE Ret(h.s, v)
      [] v.n = "logon" -> IF ev = "LogonTimeout" THEN Ret(s, Latent) ELSE Ret(s, v)
      [] v.n = "logout" -> IF ev = "LogoutTimeout" THEN Ret(s, Latent) ELSE Ret(s, v)
      [] OTHER -> Ret(s, v)

OnTimeout(s0, ev) == LET h == StateTimeout(Wake(ClearLogs(s0)), ev) IN SetState(h.s, h.nx)

\* session.go onAdmin(connect) + stateMachine.Connect
ShouldSendReset(s) ==
    s.cfg.bs >= 41 /\ (s.cfg.resetOnLogon \/ s.cfg.resetOnDisconnect \/ s.cfg.resetOnLogout)
    /\ s.nIn = 1 /\ s.nOut = 1

OnConnect(s0) ==
    LET s == ClearLogs(s0) IN
    IF IsConnected(s.cur) \/ ~IsSessionTime(s.cur) THEN s
    ELSE LET s1 == [s EXCEPT !.conn = TRUE, !.inbuf = <<>>, !.sentReset = FALSE] IN
         IF s1.cfg.role = "acc" THEN SetState(s1, LogonSt)
         ELSE LET s2 == IF s1.cfg.resetOnLogon THEN StoreReset(s1) ELSE s1
                  s3 == DropAndSend(s2, Out("A", s2.hb, 0, 0, IF ShouldSendReset(s2) THEN "Y" ELSE ""))
              IN SetState(s3, LogonSt)

StateStop(s) ==
    LET v == s.cur IN
    CASE IsLoggedOn(v) -> Ret(InitiateLogout(s, FALSE), LogoutSt)
      [] v.n = "logon" -> Ret(s, Latent)
      [] OTHER -> Ret(s, v)

OnStop(s0) == LET s == [ClearLogs(s0) EXCEPT !.pstop = TRUE]
                  h == StateStop(s) IN SetState(h.s, h.nx)

OnDisconnected(s0) == LET s == ClearLogs(s0) IN IF IsConnected(s.cur) THEN SetState(s, Latent) ELSE s

\* SendAppMessages
OnFlush(s0) == LET s == Wake(ClearLogs(s0)) IN IF IsLoggedOn(s.cur) THEN Flush(s) ELSE [s EXCEPT !.q = <<>>]

\* SendToTarget -> queueForSend; a = [x body id, dns refuse now, ref refuse on resend]
OnSend(s0, a) ==
    QueueForSend(ClearLogs(s0), Out("D", 0, 0, 0, a.x), a.dns, a.ref)

\* the run loop receives the oldest buffered frame
OnConsume(s0) ==
    LET s == Wake(ClearLogs(s0)) IN
    IF s.inbuf = <<>> THEN s ELSE IncomingParsed([s EXCEPT !.inbuf = Tail(@)], Head(s.inbuf))

\* session_state.go CheckResetTime when the configured ResetSeqTime has been crossed since the last
\* check: on a connected session a Logon with ResetSeqNumFlag=Y goes out (sendLogonInReplyTo(true, nil):
\* the store is reset while the Logon is prepared, so it carries number 1)
OnResetTick(s0) ==
    LET s == ClearLogs(s0) IN
    IF ~s.cfg.resetSeqTime \/ ~IsConnected(s.cur) THEN s
    ELSE DropAndSend(s, Out("A", s.hb, 0, 0, "Y"))

\* ---------------------------------------------------------------- one step, by event record
\* ev.k in Connect Incoming Garbled Preload Timeout Stop Disconnected Flush Send ResetTick
Step(s, ev) ==
    CASE ev.k = "Connect" -> OnConnect(s)
      [] ev.k = "Incoming" -> OnIncoming(s, ev.m)
      [] ev.k = "Preload" -> OnPreload(s, ev.m)
      [] ev.k = "Consume" -> OnConsume(s)
      [] ev.k = "Timeout" -> OnTimeout(s, ev.e)
      [] ev.k = "Stop" -> OnStop(s)
      [] ev.k = "Disconnected" -> OnDisconnected(s)
      [] ev.k = "Flush" -> OnFlush(s)
      [] ev.k = "Send" -> OnSend(s, ev.a)
      [] ev.k = "ResetTick" -> OnResetTick(s)
      [] ev.k = "TimeTick" -> OnTimeTick(s, ev.e)

\* what the driver reads back from the real session after every step
StateName(v) == IF v.p THEN "pending(" \o v.n \o ")" ELSE v.n

SentList(s) ==
    LET ks == SetToSortSeq(DOMAIN s.sent, LAMBDA x, y : x < y)
    IN [i \in 1..Len(ks) |-> [n |-> ks[i], k |-> s.sent[ks[i]].k, x |-> s.sent[ks[i]].x, ref |-> s.sent[ks[i]].ref]]

Post(s) == [st |-> StateName(s.cur), nIn |-> s.nIn, nOut |-> s.nOut,
            stash |-> SetToSortSeq(StashKeys(s.cur), LAMBDA x, y : x < y),
            stasht |-> LET ks == SetToSortSeq(StashKeys(s.cur), LAMBDA x, y : x < y) IN
                       [i \in 1..Len(ks) |-> IF IsAdminType(s.cur.stash[ks[i]].t) THEN s.cur.stash[ks[i]].t ELSE "D"],
            rrEnd |-> s.cur.rrEnd, rrCur |-> s.cur.rrCur, q |-> Len(s.q),
            sentReset |-> s.sentReset, conn |-> s.conn, hb |-> s.hb,
            pstop |-> s.pstop, stopped |-> s.stopped, ep |-> s.ct,
            sent |-> SentList(s), inbuf |-> Len(s.inbuf)]
=============================================================================
