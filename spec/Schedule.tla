------------------------------ MODULE Schedule ------------------------------
(***************************************************************************)
(* Session schedules (internal/time_range.go) on a civil timeline.         *)
(* An instant is an integer number of seconds of civil time counted from   *)
(* Sunday 00:00:00 of week 0 in the configured zone; weekdays are 0..6     *)
(* with 0 = Sunday (Go's time.Weekday).  A configuration describes a set   *)
(* of windows; C18 says an instant is in range iff it lies in one of them  *)
(* and two instants are in the same session iff they lie in the same one.  *)
(*   daily : [kind |-> "daily", s, e, days]  a window opens on every day d *)
(*           in days (all days if empty) at s and closes at e the same day *)
(*           (s < e) or the following day (s >= e, overnight)              *)
(*   weekly: [kind |-> "weekly", s, e, sd, ed] a window opens every week   *)
(*           on weekday sd at s and closes on the next weekday ed at e     *)
(***************************************************************************)
EXTENDS Integers, Sequences, FiniteSets, TLC

Day == 86400
DayOf(t) == t \div Day                 \* absolute day number (may be negative)
WeekdayOf(d) == d % 7                  \* TLA+ % is non-negative for positive modulus

\* ---- daily windows, indexed by the absolute day on which they open
DailyOpens(c, d) == c.days = {} \/ WeekdayOf(d) \in c.days
DailyStart(c, d) == d * Day + c.s
DailyEnd(c, d) == IF c.s < c.e THEN d * Day + c.e ELSE (d + 1) * Day + c.e
InDaily(c, d, t) == DailyOpens(c, d) /\ DailyStart(c, d) <= t /\ t <= DailyEnd(c, d)

\* ---- weekly windows, indexed by the week in which they open
Span(c) == LET k == (c.ed - c.sd + 7) % 7 IN IF k = 0 /\ c.e <= c.s THEN 7 ELSE k
WeeklyStart(c, w) == (w * 7 + c.sd) * Day + c.s
WeeklyEnd(c, w) == (w * 7 + c.sd + Span(c)) * Day + c.e
InWeekly(c, w, t) == WeeklyStart(c, w) <= t /\ t <= WeeklyEnd(c, w)

\* the windows that can contain t are indexed near t
Cands(c, t) == IF c.kind = "daily" THEN {DayOf(t) - 1, DayOf(t)}
               ELSE {(DayOf(t) \div 7) - 2, (DayOf(t) \div 7) - 1, DayOf(t) \div 7}
InWin(c, i, t) == IF c.kind = "daily" THEN InDaily(c, i, t) ELSE InWeekly(c, i, t)

InRange(c, t) == \E i \in Cands(c, t) : InWin(c, i, t)
SameRange(c, t1, t2) == \E i \in Cands(c, t1) : InWin(c, i, t1) /\ InWin(c, i, t2)

\* one second around any window edge is excluded from judgement (C18 statement)
NearEdge(c, t) == \E i \in Cands(c, t) :
                     LET a == IF c.kind = "daily" THEN DailyStart(c, i) ELSE WeeklyStart(c, i)
                         b == IF c.kind = "daily" THEN DailyEnd(c, i) ELSE WeeklyEnd(c, i)
                     IN (a - 1 <= t /\ t <= a + 1) \/ (b - 1 <= t /\ t <= b + 1)

\* ------------------------------------------------------------------ bounded model (M)
CONSTANTS Times,        \* times of day used for start / end
          DaySets,      \* weekday subsets
          Grid          \* instants

VARIABLES cfg, a, b, d

Configs == [kind : {"daily"}, s : Times, e : Times, days : DaySets, sd : {0}, ed : {0}]
      \cup [kind : {"weekly"}, s : Times, e : Times, days : {{}}, sd : 0..6, ed : 0..6]

Init == cfg \in Configs /\ a \in Grid /\ b \in Grid /\ d \in Grid
Next == UNCHANGED <<cfg, a, b, d>>
Spec == Init /\ [][Next]_<<cfg, a, b, d>>

Calm(t) == ~NearEdge(cfg, t)
Symmetric == SameRange(cfg, a, b) = SameRange(cfg, b, a)
ImpliesInRange == SameRange(cfg, a, b) => (InRange(cfg, a) /\ InRange(cfg, b))
Reflexive == (Calm(a) /\ InRange(cfg, a)) => SameRange(cfg, a, a)
Transitive == (Calm(a) /\ Calm(b) /\ Calm(d) /\ SameRange(cfg, a, b) /\ SameRange(cfg, b, d)) => SameRange(cfg, a, d)
\* false across a boundary: an out-of-range instant between two instants separates them
Separated == (Calm(a) /\ Calm(b) /\ Calm(d) /\ a < d /\ d < b /\ ~InRange(cfg, d)) => ~SameRange(cfg, a, b)
\* convex: everything between two instants of one session is in that session
Convex == (Calm(a) /\ Calm(b) /\ Calm(d) /\ a < d /\ d < b /\ SameRange(cfg, a, b)) => SameRange(cfg, a, d)
=============================================================================
