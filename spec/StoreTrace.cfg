SPECIFICATION TraceSpec
CONSTANTS
  SIDs = {"s1", "s2"}
  MaxCtr = 100
  MaxKeyN = 100
  Bodies = {"m1", "m2", "m3", "m4", "m5", "m6"}
  MaxCt = 100
POSTCONDITION AllConsumed
CHECK_DEADLOCK FALSE
