--------------------------- MODULE FileStoreTrace ---------------------------
(* Binding of FileStore.tla to store/file/file_store.go: each line of trace.ndjson is one operation run on  *)
(* the real file store with the crash-point hook installed - its kind and the crash points it passed, in    *)
(* order.  They must be exactly the steps the model gives that operation (Protocol = "asbuilt"): a write,   *)
(* sync, removal or open added to, removed from or moved within the real operation shows here.              *)
EXTENDS FileStore, Json
VARIABLE l
Trace == ndJsonDeserialize("trace.ndjson")
SeqBad(r) == IF r.points = StepsOf(Op(r.k, "", 0)) THEN {} ELSE {"stepSequence"}
TraceInit == l = 1 /\ Init
TraceStep == /\ l <= Len(Trace) /\ l' = l + 1 /\ UNCHANGED vars
             /\ LET bad == SeqBad(Trace[l]) IN IF bad = {} THEN TRUE ELSE PrintT(<<"MISMATCH", l, bad, StepsOf(Op(Trace[l].k, "", 0))>>)
TraceSpec == TraceInit /\ [][TraceStep]_<<l, vars>>
AllConsumed == TLCGet("stats").diameter = Len(Trace) + 1
=============================================================================
