SPECIFICATION Spec
CONSTANTS
  SIDs = {"s1", "s2"}
  MaxCtr = 3
  MaxKeyN = 3
  Bodies = {"m1", "m2"}
  MaxCt = 1
VIEW View
INVARIANTS TypeOK GetInRangeAscending
PROPERTIES ResetForgets NonInterference OnlyResetForgets ReadsArePure
CHECK_DEADLOCK FALSE
