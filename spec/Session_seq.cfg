SPECIFICATION Spec
CONSTANTS
  Family = "seq"
  CfgRole = "acc"
  CfgBS = 42
  CfgChunk = 0
  CfgPersist = TRUE
  CfgResetOnLogon = FALSE
  CfgResetOnLogout = FALSE
  CfgResetOnDisconnect = FALSE
  CfgCheckLatency = TRUE
  CfgHbOverride = FALSE
  CfgResetSeqTime = FALSE
  CfgSchedule = FALSE
  MaxIn = 5
  MaxOut = 4
VIEW View
PROPERTIES P_C01 P_C04
CHECK_DEADLOCK FALSE
