------------------------------- MODULE Store -------------------------------
(***************************************************************************)
(* The abstract message store of QuickFIX/Go (store.go: MessageStore).     *)
(* One abstract store = two counters, a creation epoch and a map from      *)
(* sequence number to message body.  Every implementation (memory, file,   *)
(* SQL) must answer exactly like this for every operation sequence (C16).  *)
(*                                                                         *)
(* The operators are pure: Apply(st, ev) returns the next store and the    *)
(* value the call returns, so that the same text serves the model-checked  *)
(* state machine below, StoreTrace.tla (trace validation) and Engine.tla.  *)
(***************************************************************************)
EXTENDS Integers, Sequences, FiniteSets, SequencesExt, TLC

\* ------------------------------------------------------------------ pure part
NewStore(ct) == [ns |-> 1, nt |-> 1, msgs |-> <<>>, ct |-> ct]

Keys(st, b, e) == {n \in DOMAIN st.msgs : b <= n /\ n <= e}

\* bodies stored under b..e in ascending number order
GetSeq(st, b, e) ==
    LET ks == SetToSortSeq(Keys(st, b, e), LAMBDA x, y : x < y)
    IN  [i \in 1..Len(ks) |-> st.msgs[ks[i]]]

MaxKey(st) == IF DOMAIN st.msgs = {} THEN 0
              ELSE CHOOSE n \in DOMAIN st.msgs : \A k \in DOMAIN st.msgs : k <= n

Put(st, n, m) == [st EXCEPT !.msgs = [k \in (DOMAIN st.msgs) \cup {n} |->
                                         IF k = n THEN m ELSE st.msgs[k]]]

Prefix(s, k) == IF k >= Len(s) THEN s ELSE SubSeq(s, 1, k)

\* ev.k names the MessageStore method.  ret is what the call returns, in one shape for all calls:
\* seen = the bodies returned (Get) or handed to the callback (Iter), err = the call failed.
\* (Counters and creation epoch are read back by the observer after every call, see Post.)
Ok(st) == [st |-> st, ret |-> [seen |-> <<>>, err |-> FALSE]]

Apply(st, ev) ==
    CASE ev.k = "SetSender"  -> Ok([st EXCEPT !.ns = ev.v])
      [] ev.k = "SetTarget"  -> Ok([st EXCEPT !.nt = ev.v])
      [] ev.k = "IncrSender" -> Ok([st EXCEPT !.ns = @ + 1])
      [] ev.k = "IncrTarget" -> Ok([st EXCEPT !.nt = @ + 1])
      [] ev.k = "Save"       -> Ok(Put(st, ev.n, ev.m))
      [] ev.k = "SaveIncr"   -> Ok([Put(st, ev.n, ev.m) EXCEPT !.ns = @ + 1])
      [] ev.k = "Get"        -> [st |-> st, ret |-> [seen |-> GetSeq(st, ev.b, ev.e), err |-> FALSE]]
         \* Iterate with a callback that fails on its (ev.a+1)-th invocation
      [] ev.k = "Iter"       -> LET all == GetSeq(st, ev.b, ev.e) IN
                                [st |-> st,
                                 ret |-> [seen |-> Prefix(all, ev.a + 1), err |-> Len(all) > ev.a]]
      [] ev.k = "Refresh"    -> Ok(st)                     \* persistent stores: reload = identity
      [] ev.k = "Reopen"     -> Ok(st)                     \* fresh object on the same medium
      [] ev.k = "Reset"      -> Ok(NewStore(st.ct + 1))

\* what an observer reads back after every call
Post(st) == [ns |-> st.ns, nt |-> st.nt, ct |-> st.ct]

\* ------------------------------------------------------- bounded state machine
CONSTANTS SIDs,        \* session ids sharing one backing directory / database
          MaxCtr,      \* counters explored up to this value
          MaxKeyN,     \* highest sequence number saved
          Bodies,      \* abstract message bodies
          MaxCt        \* number of resets explored

VARIABLES store,       \* [SIDs -> abstract store]
          last         \* observation only: [sid, ev, ret] of the last call

vars == <<store, last>>

\* The event alphabet is a constant set and enabledness is a guard inside the action: TLC then
\* splits Next into one named action per (s, ev) and a dot dump labels every edge "Do(s,ev)",
\* which is what the script generator reads.
AllEvents ==
       [k : {"SetSender", "SetTarget"}, v : 1..MaxCtr]
  \cup {[k |-> "IncrSender"], [k |-> "IncrTarget"], [k |-> "Refresh"], [k |-> "Reopen"], [k |-> "Reset"]}
  \cup [k : {"Save", "SaveIncr"}, n : 1..MaxKeyN, m : Bodies]
  \cup [k : {"Get"}, b : 0..(MaxKeyN + 1), e : 0..(MaxKeyN + 1)]
  \cup [k : {"Iter"}, b : {1}, e : {MaxKeyN}, a : {0, 1}]

Enabled(st, ev) ==
    CASE ev.k = "IncrSender" -> st.ns < MaxCtr
      [] ev.k = "IncrTarget" -> st.nt < MaxCtr
      [] ev.k = "Save"       -> ev.n > MaxKey(st)          \* ascending numbers per epoch (C16 statement)
      [] ev.k = "SaveIncr"   -> ev.n > MaxKey(st) /\ st.ns < MaxCtr
      [] ev.k = "Reset"      -> st.ct < MaxCt
      [] OTHER               -> TRUE

Do(s, ev) ==
    /\ Enabled(store[s], ev)
    /\ store' = [store EXCEPT ![s] = Apply(store[s], ev).st]
    /\ last' = [sid |-> s, ev |-> ev, ret |-> Apply(store[s], ev).ret]

Init == /\ store = [s \in SIDs |-> NewStore(0)]
        /\ last = [sid |-> CHOOSE s \in SIDs : TRUE, ev |-> [k |-> "Init"], ret |-> [seen |-> <<>>, err |-> FALSE]]

Step == \E s \in SIDs : \E ev \in AllEvents : Do(s, ev)
Next == Step

Spec == Init /\ [][Next]_vars

View == store                                   \* `last' is an output, not state

\* ------------------------------------------------------------------ properties
TypeOK == \A s \in SIDs : /\ store[s].ns \in 1..MaxCtr /\ store[s].nt \in 1..MaxCtr
                          /\ DOMAIN store[s].msgs \subseteq 1..MaxKeyN
                          /\ store[s].ct \in 0..MaxCt

\* C16: get returns only what was saved, only inside the range, ascending
GetInRangeAscending ==
    last.ev.k = "Get" =>
        LET st == store[last.sid]
            ks == SetToSortSeq(Keys(st, last.ev.b, last.ev.e), LAMBDA x, y : x < y) IN
        /\ Len(last.ret.seen) = Cardinality(Keys(st, last.ev.b, last.ev.e))
        /\ \A i \in 1..Len(last.ret.seen) : last.ret.seen[i] = st.msgs[ks[i]]
        /\ \A i \in 1..(Len(ks) - 1) : ks[i] < ks[i + 1]

\* C16: reset returns counters to 1, forgets every message and renews the creation time
ResetForgets ==
    [][\A s \in SIDs : (last'.ev.k = "Reset" /\ last'.sid = s) =>
            /\ store'[s].ns = 1 /\ store'[s].nt = 1 /\ store'[s].msgs = <<>>
            /\ store'[s].ct > store[s].ct]_vars

\* C16: sessions sharing a backing medium do not interfere
NonInterference ==
    [][\A s \in SIDs : last'.sid # s => store'[s] = store[s]]_vars

\* C16: nothing but Reset loses a saved message, nothing but Set/Incr/Reset moves a counter
OnlyResetForgets ==
    [][\A s \in SIDs : last'.ev.k # "Reset" =>
            \A n \in DOMAIN store[s].msgs : n \in DOMAIN store'[s].msgs /\ store'[s].msgs[n] = store[s].msgs[n]]_vars

ReadsArePure ==
    [][last'.ev.k \in {"Get", "Iter", "Refresh", "Reopen"} => store' = store]_vars
=============================================================================
