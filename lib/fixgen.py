"""Case-generation helpers shared by the codec checks: building wire messages from field lists and
writing small synthetic data dictionaries."""
SOH = '\x01'

FIELD_DEFS = {
    8: ('BeginString', 'STRING'), 9: ('BodyLength', 'LENGTH'), 35: ('MsgType', 'STRING'), 49: ('SenderCompID', 'STRING'),
    56: ('TargetCompID', 'STRING'), 34: ('MsgSeqNum', 'SEQNUM'), 52: ('SendingTime', 'UTCTIMESTAMP'), 10: ('CheckSum', 'STRING'),
    93: ('SignatureLength', 'LENGTH'), 89: ('Signature', 'DATA'), 11: ('ClOrdID', 'STRING'), 55: ('Symbol', 'STRING'),
    58: ('Text', 'STRING'), 38: ('OrderQty', 'QTY'), 44: ('Price', 'PRICE'), 54: ('Side', 'CHAR'), 453: ('NoPartyIDs', 'NUMINGROUP'),
    448: ('PartyID', 'STRING'), 447: ('PartyIDSource', 'CHAR'), 452: ('PartyRole', 'INT'), 802: ('NoPartySubIDs', 'NUMINGROUP'),
    523: ('PartySubID', 'STRING'), 803: ('PartySubIDType', 'INT'), 78: ('NoAllocs', 'NUMINGROUP'), 79: ('AllocAccount', 'STRING'),
    80: ('AllocQty', 'QTY'), 5001: ('CustomHdr', 'STRING'), 5002: ('CustomTrl', 'STRING'), 212: ('XmlDataLen', 'LENGTH'),
    213: ('XmlData', 'DATA'), 1128: ('ApplVerID', 'STRING'), 98: ('EncryptMethod', 'INT'), 108: ('HeartBtInt', 'INT'),
    1137: ('DefaultApplVerID', 'STRING'), 112: ('TestReqID', 'STRING'), 141: ('ResetSeqNumFlag', 'BOOLEAN'), 60: ('TransactTime', 'UTCTIMESTAMP'),
    40: ('OrdType', 'CHAR'), 18: ('ExecInst', 'MULTIPLEVALUESTRING'), 43: ('PossDupFlag', 'BOOLEAN'), 122: ('OrigSendingTime', 'UTCTIMESTAMP'),
    1: ('Account', 'STRING'), 9999: ('UserDefined', 'STRING'), 115: ('OnBehalfOfCompID', 'STRING'), 369: ('LastMsgSeqNumProcessed', 'SEQNUM'), 50: ('SenderSubID', 'STRING'), 57: ('TargetSubID', 'STRING'), 123: ('GapFillFlag', 'BOOLEAN'),
}


def build(fields, begin=None, delta=0, len_text=None, sum_text=None):
    """fields: list of (tag, value) AFTER 8 and 9 (starting with 35 normally).  Returns the bytes as str (latin1)."""
    body = ''.join('%s=%s%s' % (t, v, SOH) for t, v in fields)
    lt = len_text if len_text is not None else str(len(body.encode('latin1')) + delta)
    head = '8=%s%s9=%s%s' % (begin or 'FIX.4.2', SOH, lt, SOH)
    pre = head + body
    st = sum_text if sum_text is not None else '%03d' % (sum(pre.encode('latin1')) % 256)
    return pre + '10=%s%s' % (st, SOH)


def raw_build(all_fields, delta=0, sum_ok=True):
    """all_fields: every field in wire order including 8, 9 (value ignored -> computed), 10 (computed).
    BodyLength is computed as the byte count between the first '9' field and the last '10' field."""
    idx9 = next((i for i, (t, v) in enumerate(all_fields) if str(t) == '9'), None)
    idx10 = max((i for i, (t, v) in enumerate(all_fields) if str(t) == '10'), default=None)
    def enc(fs):
        return ''.join('%s=%s%s' % (t, v, SOH) for t, v in fs)
    out = list(all_fields)
    if idx9 is not None:
        end = idx10 if idx10 is not None and idx10 > idx9 else len(out)
        n = len(enc(out[idx9 + 1:end]).encode('latin1'))
        out[idx9] = (out[idx9][0], str(n + delta))
    if idx10 is not None:
        s = sum(enc(out[:idx10]).encode('latin1')) % 256
        out[idx10] = (out[idx10][0], '%03d' % (s if sum_ok else (s + 1) % 256))
    return enc(out)


def dict_xml(kind, header, trailer, messages, groups=None, fixt=False, extra_fields=()):
    """kind: 'FIX' major minor; messages: {msgtype: (name, [(tag, required) | ('group', tag, required, [members...])])}"""
    used = set(header) | set(trailer) | set(extra_fields)

    def part_xml(p, indent):
        if p[0] == 'group':
            _, tag, req, members = p
            used.add(tag)
            inner = ''.join(part_xml(m, indent + '  ') for m in members)
            return "%s<group name='%s' required='%s'>\n%s%s</group>\n" % (indent, FIELD_DEFS[tag][0], 'Y' if req else 'N', inner, indent)
        tag, req = p
        used.add(tag)
        return "%s<field name='%s' required='%s'/>\n" % (indent, FIELD_DEFS[tag][0], 'Y' if req else 'N')
    msgs = ''
    for mt, (name, parts) in messages.items():
        msgs += "    <message msgcat='app' msgtype='%s' name='%s'>\n%s    </message>\n" % (mt, name, ''.join(part_xml(p, '      ') for p in parts))
    hdr = ''.join("    <field name='%s' required='%s'/>\n" % (FIELD_DEFS[t][0], 'Y' if t in (8, 9, 35) else 'N') for t in header)
    trl = ''.join("    <field name='%s' required='%s'/>\n" % (FIELD_DEFS[t][0], 'Y' if t == 10 else 'N') for t in trailer)
    flds = ''.join("    <field name='%s' number='%d' type='%s'/>\n" % (FIELD_DEFS[t][0], t, FIELD_DEFS[t][1]) for t in sorted(used))
    typ, major, minor = ('FIXT', 1, 1) if fixt else ('FIX', 4, 4)
    return ("<fix type='%s' major='%d' minor='%d' servicepack='0'>\n  <header>\n%s  </header>\n  <trailer>\n%s  </trailer>\n"
            "  <messages>\n%s  </messages>\n  <components/>\n  <fields>\n%s  </fields>\n</fix>\n") % (typ, major, minor, hdr, trl, msgs, flds)
