"""TLC dot dump (-dump dot,actionlabels) -> labelled graph -> covering scripts.

A script is a path from an initial state; each step is the index of an edge.  Edge labels are
'Action(arg,...)' with TLA+ values, parsed on demand with tlaval.
"""
import re
import random
from collections import deque
from . import tlaval

_node = re.compile(r'^(-?\d+) \[label="((?:[^"\\]|\\.)*)"(.*)$')
_edge = re.compile(r'^(-?\d+) -> (-?\d+) \[label="((?:[^"\\]|\\.)*)"')


def _unesc(s):
    out = []
    i = 0
    while i < len(s):
        c = s[i]
        if c == '\\' and i + 1 < len(s):
            n = s[i + 1]
            out.append('\n' if n == 'n' else n)
            i += 2
        else:
            out.append(c)
            i += 1
    return ''.join(out)


class Graph:
    def __init__(self, path):
        self.ids = {}
        self.labels = []       # node label text
        self.inits = []
        self.src = []
        self.dst = []
        self.elabel = []       # index into self.lab
        self.lab = []          # distinct edge labels (text)
        labidx = {}
        with open(path) as f:
            for line in f:
                m = _edge.match(line)
                if m:
                    a, b, l = m.group(1), m.group(2), m.group(3)
                    ia = self._nid(a)
                    ib = self._nid(b)
                    li = labidx.get(l)
                    if li is None:
                        li = labidx[l] = len(self.lab)
                        self.lab.append(l)
                    self.src.append(ia)
                    self.dst.append(ib)
                    self.elabel.append(li)
                    continue
                m = _node.match(line)
                if m:
                    i = self._nid(m.group(1))
                    self.labels[i] = m.group(2)
                    if 'style = filled' in m.group(3):
                        self.inits.append(i)
        self.n = len(self.labels)
        self.m = len(self.src)
        self.out = [[] for _ in range(self.n)]
        for e in range(self.m):
            self.out[self.src[e]].append(e)
        self._pl = {}
        self._ps = {}

    def _nid(self, a):
        i = self.ids.get(a)
        if i is None:
            i = self.ids[a] = len(self.labels)
            self.labels.append(None)
        return i

    def edge_call(self, e):
        li = self.elabel[e]
        v = self._pl.get(li)
        if v is None:
            v = self._pl[li] = tlaval.parse_call(_unesc(self.lab[li]))
        return v

    def node_state(self, i):
        v = self._ps.get(i)
        if v is None:
            v = self._ps[i] = tlaval.parse_state(_unesc(self.labels[i]))
        return v

    # ------------------------------------------------------------------ covers
    def _bfs_to(self, start, want):
        """shortest edge path from node start to the nearest node satisfying want(node)"""
        if want(start):
            return []
        prev = {start: None}
        q = deque([start])
        while q:
            u = q.popleft()
            for e in self.out[u]:
                v = self.dst[e]
                if v not in prev:
                    prev[v] = e
                    if want(v):
                        path = []
                        while prev[v] is not None:
                            path.append(prev[v])
                            v = self.src[prev[v]]
                        path.reverse()
                        return path
                    q.append(v)
        return None

    def keyed_cover(self, maxlen, key, rng=None):
        """tours that take, for every distinct key(e), at least one edge with that key (a cover of
        the graph's (state class, event) pairs).  Returns (scripts, number of keys)."""
        rng = rng or random.Random(0)
        ekey = [key(e) for e in range(self.m)]
        todo = set(ekey)
        nkeys = len(todo)
        cand = [[e for e in self.out[u]] for u in range(self.n)]

        def pick(u):
            lst = cand[u]
            while lst:
                e = lst[-1]
                if ekey[e] in todo:
                    return e
                lst.pop()
            return None
        for u in range(self.n):
            rng.shuffle(cand[u])
        scripts = []
        while todo:
            progressed = False
            for init in self.inits:
                cur = init
                path = []
                while todo:
                    e = pick(cur)
                    if e is not None and len(path) < maxlen:
                        todo.discard(ekey[e])
                        cand[cur].pop()
                        path.append(e)
                        cur = self.dst[e]
                        progressed = True
                        continue
                    hop = self._bfs_to(cur, lambda v: pick(v) is not None)
                    if hop is None or (path and len(path) + len(hop) >= maxlen):
                        break
                    path.extend(hop)
                    cur = self.dst[hop[-1]]
                    if not path:
                        break
                    e = pick(cur)
                    if e is None:
                        break
                    todo.discard(ekey[e])
                    cand[cur].pop()
                    path.append(e)
                    cur = self.dst[e]
                    progressed = True
                if path:
                    scripts.append(path)
            if not progressed:
                break
        return scripts, nkeys

    def edge_cover(self, maxlen, rng=None, skip=None):
        """scripts (lists of edge indices) that together take every edge at least once.
        skip(e) -> True for edges that need not be covered (e.g. pure self-loops of reads)."""
        rng = rng or random.Random(0)
        unc = [set(e for e in self.out[u] if not (skip and skip(e))) for u in range(self.n)]
        left = sum(len(s) for s in unc)
        scripts = []
        while left > 0:
            progressed = False
            for init in self.inits:
                cur = init
                path = []
                while len(path) < maxlen:
                    if unc[cur]:
                        e = rng.choice(sorted(unc[cur])) if len(unc[cur]) > 1 else next(iter(unc[cur]))
                        unc[cur].discard(e)
                        left -= 1
                        progressed = True
                        path.append(e)
                        cur = self.dst[e]
                        continue
                    hop = self._bfs_to(cur, lambda v: bool(unc[v]))
                    if hop is None or len(path) + len(hop) >= maxlen:
                        break
                    path.extend(hop)
                    cur = self.dst[hop[-1]]
                if path:
                    scripts.append(path)
            if not progressed:
                # uncovered edges exist but are out of reach within maxlen from a fresh start:
                # reach them by a shortest path regardless of length
                for init in self.inits:
                    hop = self._bfs_to(init, lambda v: bool(unc[v]))
                    if hop is None:
                        continue
                    cur = self.dst[hop[-1]] if hop else init
                    path = list(hop)
                    while unc[cur]:
                        e = next(iter(unc[cur]))
                        unc[cur].discard(e)
                        left -= 1
                        path.append(e)
                        cur = self.dst[e]
                    scripts.append(path)
                    progressed = True
                    break
                if not progressed:
                    break
        return scripts

    def switch_cover(self, maxlen, budget, rng=None, skip=None):
        """greedy tours covering pairs of consecutive edges (1-switch); stops after `budget`
        steps in total.  Returns (scripts, pairs_covered, pairs_total)."""
        rng = rng or random.Random(0)
        keep = [e for e in range(self.m) if not (skip and skip(e))]
        outk = [[e for e in self.out[u] if not (skip and skip(e))] for u in range(self.n)]
        total = sum(len(outk[self.dst[e]]) for e in keep)
        succ_unc = {}          # e1 -> set of uncovered e2 (lazily created)

        def unc(e1):
            s = succ_unc.get(e1)
            if s is None:
                s = succ_unc[e1] = set(outk[self.dst[e1]])
            return s
        covered = 0
        steps = 0
        scripts = []
        inits = list(self.inits)
        while steps < budget and covered < total:
            cur = rng.choice(inits)
            last = None
            path = []
            while len(path) < maxlen and steps < budget:
                cand = outk[cur]
                if not cand:
                    break
                if last is not None:
                    u = unc(last)
                    if u:
                        e = rng.choice(sorted(u)) if len(u) < 50 else next(iter(u))
                    else:
                        e = rng.choice(cand)
                else:
                    e = rng.choice(cand)
                if last is not None and e in unc(last):
                    unc(last).discard(e)
                    covered += 1
                path.append(e)
                steps += 1
                last = e
                cur = self.dst[e]
            if path:
                scripts.append(path)
            else:
                break
        return scripts, covered, total
