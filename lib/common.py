"""Shared machinery of the /verif checks: scratch space, harness build, TLC runs, verdicts,
known findings, evidence."""
import atexit
import fcntl
import json
import os
import re
import shutil
import subprocess
import sys
import tempfile
import time

VERIF = os.path.dirname(os.path.dirname(os.path.abspath(__file__)))
REPO = os.environ.get('VERIF_REPO', '/repo')
SPEC = os.path.join(VERIF, 'spec')
HARNESS = os.path.join(VERIF, 'harness')

GOENV = dict(os.environ, GOFLAGS='-mod=mod', GOPROXY='off', GOSUMDB='off', GOTOOLCHAIN='local',
             CGO_ENABLED='1')

LEVELS = {}


class Infra(Exception):
    """infrastructure failure: exit 2, never a verdict"""


class Ctx:
    def __init__(self, pid, tier, seed, level, keep_replays=False):
        self.pid = pid
        self.tier = tier
        self.seed = seed
        self.level = level
        self.t0 = time.time()
        self.scratch = tempfile.mkdtemp(prefix='verif-%s-' % pid)
        atexit.register(lambda: shutil.rmtree(self.scratch, ignore_errors=True))
        import signal

        def _term(signum, frame):
            # kill children (TLC, drivers) and leave through atexit so the scratch space is removed
            try:
                subprocess.run(['pkill', '-TERM', '-P', str(os.getpid())])
            finally:
                sys.exit(2)
        signal.signal(signal.SIGTERM, _term)
        signal.signal(signal.SIGINT, _term)
        self.violations = []      # dicts: {sig, what, replay}
        self.known_seen = {}      # id -> count
        self.divergences = 0
        self.cov = {}
        self.assumptions = []
        self.notes = []
        self._known = load_known(pid)
        if not keep_replays:
            shutil.rmtree(os.path.join(VERIF, 'replays', pid), ignore_errors=True)
        self._tlcn = 0
        self.vh = None

    # ------------------------------------------------------------------ build
    def build(self):
        """build the Go harness from the repository's current working tree with -tags verif"""
        mod = os.path.join(self.scratch, 'go.mod')
        with open(os.path.join(HARNESS, 'go.mod.in')) as f:
            txt = f.read().replace('@REPO@', REPO)
        with open(mod, 'w') as f:
            f.write(txt)
        shutil.copy(os.path.join(REPO, 'go.sum'), os.path.join(self.scratch, 'go.sum'))
        out = os.path.join(self.scratch, 'vh')
        t = time.time()
        p = subprocess.run(['go', 'build', '-tags', 'verif', '-modfile', mod, '-o', out, './cmd/vh'],
                           cwd=HARNESS, env=GOENV, capture_output=True, text=True)
        if p.returncode != 0:
            raise Infra('harness build failed:\n' + p.stdout + p.stderr)
        self.vh = out
        self.build_s = time.time() - t
        return out

    def run_vh(self, args, stdin=None, timeout=600, env=None):
        e = dict(os.environ)
        e['VERIF_SEED'] = str(self.seed)
        if env:
            e.update(env)
        p = subprocess.run([self.vh] + args, input=stdin, capture_output=True, text=True, timeout=timeout, env=e)
        return p

    # ------------------------------------------------------------------ TLC
    def tlc(self, module, cfg, workers=8, extra=None, timeout=600, files=None, javaopts=None, simulate=False):
        """run TLC on a scratch copy of spec/; returns dict(rc, out, states, distinct, dir)"""
        self._tlcn += 1
        d = os.path.join(self.scratch, 'tlc%d' % self._tlcn)
        os.makedirs(d)
        for fn in os.listdir(SPEC):
            if fn.endswith('.tla') or fn.endswith('.cfg'):
                shutil.copy(os.path.join(SPEC, fn), d)
        for name, content in (files or {}).items():
            with open(os.path.join(d, name), 'w') as f:
                f.write(content)
        cmd = ['timeout', str(timeout), 'tlc', '-workers', str(workers), '-metadir', os.path.join(d, 'md'),
               '-config', cfg] + (extra or []) + [module]
        env = dict(os.environ)
        # TLC leaves an empty tlc-<n> directory in java.io.tmpdir per run: keep it inside the scratch space
        env['JAVA_TOOL_OPTIONS'] = ((javaopts + ' ') if javaopts else '') + '-Djava.io.tmpdir=' + d
        t = time.time()
        p = subprocess.run(cmd, cwd=d, capture_output=True, text=True, env=env)
        out = p.stdout + p.stderr
        r = {'rc': p.returncode, 'out': out, 'dir': d, 'wall': time.time() - t, 'generated': 0, 'distinct': 0}
        m = re.findall(r'(\d+) states generated, (\d+) distinct states found', out)
        if m:
            r['generated'], r['distinct'] = int(m[-1][0]), int(m[-1][1])
        if p.returncode == 124:
            raise Infra('TLC timed out after %ds on %s/%s' % (timeout, module, cfg))
        if 'java.lang.OutOfMemoryError' in out or 'StackOverflowError' in out:
            raise Infra('TLC resource failure on %s/%s:\n%s' % (module, cfg, out[-2000:]))
        return r

    def tlc_ok(self, r, what):
        """a model-checking run must finish without error; anything else is an infrastructure failure
        (the model's own result is never a verdict, DESIGN 5)"""
        if r['rc'] != 0 or 'Model checking completed. No error has been found.' not in r['out']:
            raise Infra('%s: TLC did not complete cleanly (rc=%d)\n%s' % (what, r['rc'], r['out'][-3000:]))

    # ------------------------------------------------------------------ verdicts
    def diverge(self, what):
        """a conformance-only mismatch between a model and the real code (no property clause failed)"""
        self.divergences += 1
        if len([n for n in self.notes if n.startswith('divergence')]) < 10:
            self.notes.append('divergence: ' + what)

    def report(self, sig, what, replay_obj=None):
        """a property-monitor failure on real-code behaviour.  sig: abstract failing case (dict)."""
        for k in self._known:
            if k.get('status') == 'known' and match_sig(k['signature'], sig):
                n = self.known_seen.get(k['id'], 0)
                self.known_seen[k['id']] = n + 1
                return 'known'
        path = None
        if len(self.violations) < 20:
            rd = os.path.join(VERIF, 'replays', self.pid)
            os.makedirs(rd, exist_ok=True)
            path = os.path.join(rd, 'violation_%d.json' % len(self.violations))
            with open(path, 'w') as f:
                json.dump({'property': self.pid, 'sig': sig, 'what': what, 'replay': replay_obj,
                           'seed': self.seed, 'tier': self.tier}, f, indent=1)
        self.violations.append({'sig': sig, 'what': what, 'replay': path})
        return 'violation'

    # ------------------------------------------------------------------ finish
    def finish(self):
        for k in self._known:
            if k.get('status') == 'known' and self.known_seen.get(k['id']):
                print('KNOWN-FINDING: property=%s %s [%s, %d occurrence(s)]' % (self.pid, k['what'], k['id'], self.known_seen[k['id']]))
        if self.divergences:
            print('DIVERGENCE property=%s count=%d (conformance only; property monitors held)' % (self.pid, self.divergences))
        cov = dict(self.cov)
        cov.setdefault('trusted_base', ['TLC 1.8.0', 'Go toolchain', '/verif/harness (drivers, fixscan)', '/verif/lib (orchestration)'])
        ev = {'property_id': self.pid, 'tier': self.tier, 'seed': self.seed, 'level': self.level,
              'coverage': cov, 'assumptions': self.assumptions, 'wall_s': round(time.time() - self.t0, 2),
              'violations': len(self.violations),
              'known_findings_seen': self.known_seen, 'divergences': self.divergences, 'notes': self.notes}
        os.makedirs(os.path.join(VERIF, 'evidence'), exist_ok=True)
        with open(os.path.join(VERIF, 'evidence', self.pid + '.json'), 'w') as f:
            json.dump(ev, f, indent=1, default=str)
        if self.violations:
            seen = set()
            for v in self.violations[:20]:
                print('VIOLATION property=%s replay=%s' % (self.pid, v['replay']))
                key = json.dumps(v['sig'], sort_keys=True)
                if key not in seen:
                    seen.add(key)
                    print('  what: %s' % v['what'])
            import collections
            cnt = collections.Counter(json.dumps(v['sig'], sort_keys=True) for v in self.violations)
            print('distinct violation signatures:')
            for k, n in cnt.most_common(40):
                print('  %6d  %s' % (n, k))
            print('%s: %d violation(s) on %s tier' % (self.pid, len(self.violations), self.tier))
            return 1
        print('%s: ok (%s tier, %.1fs)' % (self.pid, self.tier, time.time() - self.t0))
        return 0


def load_known(pid):
    p = os.path.join(VERIF, 'KNOWN_FINDINGS.json')
    if not os.path.exists(p):
        return []
    with open(p) as f:
        d = json.load(f)
    return [k for k in d.get('findings', []) if k.get('property') == pid]


def match_sig(pattern, sig):
    """structural match: every key of pattern must be present in sig and equal; a list in the
    pattern means 'one of'; a string starting with 're:' is a regular expression."""
    for k, want in pattern.items():
        if k not in sig:
            return False
        got = sig[k]
        if isinstance(want, dict) and isinstance(got, dict):
            if not match_sig(want, got):
                return False
        elif isinstance(want, list) and not isinstance(got, list):
            if got not in want:
                return False
        elif isinstance(want, str) and want.startswith('re:'):
            if not re.search(want[3:], str(got)):
                return False
        elif want != got:
            return False
    return True


def printed(out, tag):
    """all tuples <<"tag", ...>> that a TLC run printed with PrintT (possibly over several lines)"""
    from . import tlaval
    res = []
    for m in re.finditer(r'<<\s*"%s"' % re.escape(tag), out):
        p = tlaval.P(out)
        p.i = m.start()
        try:
            res.append(p.value())
        except Exception:
            continue
    return res


def ndjson_write(path, rows):
    with open(path, 'w') as f:
        for r in rows:
            f.write(json.dumps(r, separators=(',', ':')))
            f.write('\n')


def ndjson_read(path):
    out = []
    with open(path) as f:
        for line in f:
            line = line.strip()
            if line:
                out.append(json.loads(line))
    return out


def main_wrapper(fn):
    """run a check function(ctx) with the exit-code policy of DESIGN 5"""
    import argparse
    ap = argparse.ArgumentParser()
    ap.add_argument('pid')
    ap.add_argument('--tier', default=os.environ.get('VERIF_TIER', 'quick'))
    ap.add_argument('--replay')
    a = ap.parse_args()
    seed = int(os.environ.get('VERIF_SEED', '1') or 1)
    return a, seed
