"""Parser for TLA+ values as printed by TLC (state dumps, dot labels, -simulate files).

Records -> dict, tuples -> list, sets -> list (tagged by wrapper class TSet), functions
(a :> b @@ c :> d) -> dict with the keys converted to str when they are not strings, strings -> str,
integers -> int, TRUE/FALSE -> bool, model values -> str.
"""


class TSet(list):
    pass


class P:
    def __init__(self, s):
        self.s = s
        self.i = 0

    def ws(self):
        s = self.s
        while self.i < len(s) and s[self.i] in ' \t\r\n':
            self.i += 1

    def peek(self, t):
        self.ws()
        return self.s.startswith(t, self.i)

    def eat(self, t):
        self.ws()
        if not self.s.startswith(t, self.i):
            raise ValueError('expected %r at %d in %r' % (t, self.i, self.s[max(0, self.i - 30):self.i + 30]))
        self.i += len(t)

    def value(self):
        self.ws()
        s = self.s
        c = s[self.i]
        if c == '"':
            j = self.i + 1
            out = []
            while s[j] != '"':
                if s[j] == '\\':
                    j += 1
                    out.append({'n': '\n', 't': '\t'}.get(s[j], s[j]))
                else:
                    out.append(s[j])
                j += 1
            self.i = j + 1
            return ''.join(out)
        if s.startswith('<<', self.i):
            self.i += 2
            items = []
            if self.peek('>>'):
                self.eat('>>')
                return items
            while True:
                items.append(self.value())
                if self.peek(','):
                    self.eat(',')
                else:
                    break
            self.eat('>>')
            return items
        if c == '{':
            self.i += 1
            items = TSet()
            if self.peek('}'):
                self.eat('}')
                return items
            while True:
                items.append(self.value())
                if self.peek(','):
                    self.eat(',')
                else:
                    break
            self.eat('}')
            return items
        if c == '[':
            self.i += 1
            d = {}
            if self.peek(']'):
                self.eat(']')
                return d
            while True:
                self.ws()
                j = self.i
                while s[j].isalnum() or s[j] == '_':
                    j += 1
                k = s[self.i:j]
                self.i = j
                self.eat('|->')
                d[k] = self.value()
                if self.peek(','):
                    self.eat(',')
                else:
                    break
            self.eat(']')
            return d
        if c == '(':
            self.i += 1
            d = {}
            while True:
                k = self.value()
                self.eat(':>')
                v = self.value()
                d[k if isinstance(k, str) else str(k)] = v
                if self.peek('@@'):
                    self.eat('@@')
                else:
                    break
            self.eat(')')
            return d
        if c == '-' or c.isdigit():
            j = self.i + 1
            while j < len(s) and s[j].isdigit():
                j += 1
            v = int(s[self.i:j])
            self.i = j
            if s.startswith('..', self.i):
                self.i += 2
                hi = self.value()
                return TSet(range(v, hi + 1))
            return v
        j = self.i
        while j < len(s) and (s[j].isalnum() or s[j] == '_'):
            j += 1
        w = s[self.i:j]
        if not w:
            raise ValueError('unexpected %r at %d in %r' % (c, self.i, s[max(0, self.i - 30):self.i + 30]))
        self.i = j
        if w == 'TRUE':
            return True
        if w == 'FALSE':
            return False
        return w


def parse(text):
    p = P(text)
    v = p.value()
    p.ws()
    if p.i != len(p.s):
        raise ValueError('trailing text at %d: %r' % (p.i, p.s[p.i:p.i + 40]))
    return v


def parse_call(text):
    """'Do("s1",[k |-> "X"])' -> ('Do', ["s1", {...}]);  'Next' -> ('Next', [])"""
    text = text.strip()
    k = text.find('(')
    if k < 0:
        return text, []
    name = text[:k]
    p = P(text)
    p.i = k + 1
    args = []
    if p.peek(')'):
        return name, args
    while True:
        args.append(p.value())
        if p.peek(','):
            p.eat(',')
        else:
            break
    p.eat(')')
    return name, args


def parse_state(label):
    """'/\\ x = 1\n/\\ y = <<>>' -> {'x': 1, 'y': []}"""
    out = {}
    parts = [q for q in label.split('/\\ ') if q.strip()]
    for part in parts:
        k = part.index('=')
        out[part[:k].strip()] = parse(part[k + 1:].strip())
    return out
