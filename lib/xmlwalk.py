"""Independent walk of a QuickFIX data-dictionary XML file (xml.etree, no code shared with the
datadictionary package): XML -> the document record of Dictionary.tla, and back (rendering of
generated documents)."""
import xml.etree.ElementTree as ET


def parts_of(el):
    out = []
    for ch in el:
        if ch.tag not in ('field', 'component', 'group'):
            continue
        p = {'k': ch.tag, 'name': ch.get('name'), 'req': ch.get('required') == 'Y', 'parts': []}
        if ch.tag == 'group':
            p['parts'] = parts_of(ch)
        out.append(p)
    return out


def load(path):
    root = ET.parse(path).getroot()
    doc = {'fields': [], 'components': [], 'messages': [], 'header': [], 'trailer': []}
    f = root.find('fields')
    for fe in (f if f is not None else []):
        doc['fields'].append({'name': fe.get('name'), 'num': int(fe.get('number')), 'type': fe.get('type'),
                              'enums': [v.get('enum') for v in fe.findall('value')]})
    c = root.find('components')
    for ce in (c if c is not None else []):
        doc['components'].append({'name': ce.get('name'), 'parts': parts_of(ce)})
    m = root.find('messages')
    for me in (m if m is not None else []):
        doc['messages'].append({'name': me.get('name'), 'msgtype': me.get('msgtype'), 'parts': parts_of(me)})
    h = root.find('header')
    doc['header'] = parts_of(h) if h is not None else []
    t = root.find('trailer')
    doc['trailer'] = parts_of(t) if t is not None else []
    return doc


def render_parts(parts, ind):
    s = ''
    for p in parts:
        req = 'Y' if p['req'] else 'N'
        if p['k'] == 'group':
            s += "%s<group name='%s' required='%s'>\n%s%s</group>\n" % (ind, p['name'], req, render_parts(p['parts'], ind + '  '), ind)
        else:
            s += "%s<%s name='%s' required='%s'/>\n" % (ind, p['k'], p['name'], req)
    return s


def render(doc, typ='FIX', major=4, minor=4):
    s = "<fix type='%s' major='%d' minor='%d' servicepack='0'>\n" % (typ, major, minor)
    s += "  <header>\n%s  </header>\n  <trailer>\n%s  </trailer>\n" % (render_parts(doc['header'], '    '), render_parts(doc['trailer'], '    '))
    s += '  <messages>\n'
    for m in doc['messages']:
        s += "    <message name='%s' msgtype='%s' msgcat='app'>\n%s    </message>\n" % (m['name'], m['msgtype'], render_parts(m['parts'], '      '))
    s += '  </messages>\n  <components>\n'
    for c in doc['components']:
        s += "    <component name='%s'>\n%s    </component>\n" % (c['name'], render_parts(c['parts'], '      '))
    s += '  </components>\n  <fields>\n'
    for f in doc['fields']:
        if f['enums']:
            s += "    <field number='%d' name='%s' type='%s'>\n%s    </field>\n" % (
                f['num'], f['name'], f['type'], ''.join("      <value enum='%s' description='D%d'/>\n" % (e, i) for i, e in enumerate(f['enums'])))
        else:
            s += "    <field number='%d' name='%s' type='%s'/>\n" % (f['num'], f['name'], f['type'])
    s += '  </fields>\n</fix>\n'
    return s
