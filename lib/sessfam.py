"""Shared pipeline of the session-family checks (C01 C03 C04 C06 C07 C08 C20):
M (TLC on Session.tla, family alphabet) -> G (dot dump -> scripts) -> R (vh session on the real
engine) -> V (TLC on SessionTrace.tla: property monitors + conformance)."""
import json
import os
import random

from . import common, graph

CFG_TMPL = '''SPECIFICATION Spec
CONSTANTS
  Family = "%(family)s"
  CfgRole = "%(role)s"
  CfgBS = %(bs)d
  CfgChunk = %(chunk)d
  CfgPersist = %(persist)s
  CfgResetOnLogon = %(resetOnLogon)s
  CfgResetOnLogout = %(resetOnLogout)s
  CfgResetOnDisconnect = %(resetOnDisconnect)s
  CfgCheckLatency = %(checkLatency)s
  CfgHbOverride = %(hbOverride)s
  CfgResetSeqTime = %(resetSeqTime)s
  CfgSchedule = %(schedule)s
  MaxIn = %(maxIn)d
  MaxOut = %(maxOut)d
  MaxEp = %(maxEp)d
  MaxStash = %(maxStash)d
VIEW View
%(props)s
CHECK_DEADLOCK FALSE
'''

DEFAULTS = dict(role='acc', bs=42, chunk=0, persist=True, resetOnLogon=False, resetOnLogout=False,
                resetOnDisconnect=False, checkLatency=True, hbOverride=False, resetSeqTime=False, schedule=False, maxIn=6, maxOut=3, maxEp=2, maxStash=2)


def tla_bool(b):
    return 'TRUE' if b else 'FALSE'


def mk_cfg(family, conf, props):
    d = dict(DEFAULTS)
    d.update(conf)
    d['family'] = family
    for k in ('persist', 'resetOnLogon', 'resetOnLogout', 'resetOnDisconnect', 'checkLatency', 'hbOverride', 'resetSeqTime', 'schedule'):
        d[k] = tla_bool(d[k])
    d['props'] = ('PROPERTIES ' + ' '.join(props)) if props else ''
    return CFG_TMPL % d


def engine_cfg(conf):
    """the abstract configuration record handed to the driver (Engine!DefaultCfg shape)"""
    d = dict(DEFAULTS)
    d.update(conf)
    extra = {}
    if conf.get('dd'):
        # the session parses with the shipped dictionary of its version (FIX.4.x only)
        extra['dd'] = os.path.join(common.REPO, 'spec', 'FIX%d.xml' % d['bs'])
    return dict(extra, **_engine_cfg(d))


def _engine_cfg(d):
    return {'role': d['role'], 'bs': d['bs'], 'resetOnLogon': d['resetOnLogon'], 'resetOnLogout': d['resetOnLogout'],
            'resetOnDisconnect': d['resetOnDisconnect'], 'refreshOnLogon': bool(d.get('refreshOnLogon')), 'chunk': d['chunk'],
            'persist': d['persist'], 'checkLatency': d['checkLatency'], 'hbOverride': d['hbOverride'], 'hbCfg': 30,
            'resetSeqTime': d['resetSeqTime'], 'schedule': d['schedule']}


def conf_name(conf):
    d = dict(DEFAULTS)
    d.update(conf)
    flags = ''.join(c for c, k in (('L', 'resetOnLogon'), ('O', 'resetOnLogout'), ('D', 'resetOnDisconnect'),
                                   ('H', 'hbOverride'), ('T', 'resetSeqTime'), ('S', 'schedule')) if d[k]) + ('d' if conf.get('dd') else '') + ('R' if conf.get('refreshOnLogon') else '')
    return '%s-%d-c%d%s%s%s' % (d['role'], d['bs'], d['chunk'], '' if d['persist'] else '-np',
                                '' if d['checkLatency'] else '-nl', ('-' + flags) if flags else '')


class _MiniCtx:
    """what Family.model needs of a check context, for a worker process"""
    tlc = common.Ctx.tlc
    tlc_ok = common.Ctx.tlc_ok

    def __init__(self, scratch, seed):
        os.makedirs(scratch, exist_ok=True)
        self.scratch = scratch
        self.seed = seed
        self._tlcn = 0
        self.notes = []


def _model_job(args):
    """M + G for one configuration in a worker process (TLC, dot parsing and tour construction are
    independent per configuration; the Python graph code is single threaded)"""
    pid, family, props, conf, idx, seed, scratch, maxlen, budget, cover = args
    mini = _MiniCtx(os.path.join(scratch, 'mg%d' % idx), seed)
    fam = Family(mini, pid, family, props)
    fam.confs = [None] * idx           # the tour generator is seeded with the configuration's position
    import time as _t
    t0 = _t.time()
    g, kinds = fam.model(conf, maxlen=maxlen, switch_budget=budget, cover=cover, workers=4, timeout=900 if cover == 'class' else 3000)
    for s_ in fam.scripts:
        s_['id'] = '%d:%s' % (idx, s_['id'])
    import shutil
    shutil.rmtree(mini.scratch, ignore_errors=True)
    return {'scripts': fam.scripts, 'states': fam.states, 'transitions': fam.transitions, 'graph_edges': fam.graph_edges,
            'edges_covered': fam.edges_covered, 'pairs_cov': fam.pairs_cov, 'pairs_tot': fam.pairs_tot, 'name': fam.confs[-1],
            'kinds': sorted(kinds), 'notes': mini.notes, 'secs': _t.time() - t0, 'nstates': fam.states}


class Family:
    def __init__(self, ctx, pid, family, props):
        self.ctx = ctx
        self.pid = pid
        self.family = family
        self.props = props          # P_Cxx names checked in M
        self.states = 0
        self.transitions = 0
        self.scripts = []           # dicts {id, cfg, steps}
        self.graph_edges = 0
        self.edges_covered = 0
        self.pairs_cov = 0
        self.pairs_tot = 0
        self.confs = []

    def model(self, conf, maxlen=30, switch_budget=0, cover='class', timeout=900, workers=16):
        """M + G for one configuration; appends scripts"""
        ctx = self.ctx
        name = conf_name(conf)
        r = ctx.tlc('Session.tla', 'mc.cfg', workers=workers, files={'mc.cfg': mk_cfg(self.family, conf, self.props)},
                    extra=['-dump', 'dot,actionlabels', 'g.dot'], timeout=timeout)
        ctx.tlc_ok(r, 'Session M %s/%s' % (self.family, name))
        self.states += r['distinct']
        self.transitions += r['generated']
        dot = os.path.join(r['dir'], 'g.dot')
        if cover == 'edges' and os.path.getsize(dot) > 120 * 1024 * 1024:
            # measured: a 470 MB dump (about 2.5 M edges) takes more than 15 minutes per configuration in the
            # Python graph code; above 120 MB the tours cover (state class, event) pairs instead of every edge
            cover = 'class'
            ctx.notes.append('%s/%s: %d MB state graph, class cover instead of edge cover' % (self.family, name, os.path.getsize(dot) >> 20))
        g = graph.Graph(dot)
        os.remove(dot)
        if g.n != r['distinct']:
            raise common.Infra('dot dump has %d nodes, TLC reported %d' % (g.n, r['distinct']))
        bad = [g.lab[i] for i in range(len(g.lab)) if not g.lab[i].startswith('Do(')]
        if bad:
            raise common.Infra('unlabelled edges in dot dump: %s' % bad[:3])
        rng = random.Random(self.ctx.seed * 7919 + len(self.confs))
        ecfg = engine_cfg(conf)
        paths = []
        if cover == 'edges':
            paths += g.edge_cover(maxlen=maxlen, rng=rng)
            self.edges_covered += g.m
        elif cover == 'class':
            # one edge for every (state class, event): the class is the projected state relative to the
            # expected inbound number, so 'the same situation at a higher number' is covered once
            ncls = [node_class(g.node_state(u)) for u in range(g.n)]
            rrlab = {}

            def key(e):
                li = g.elabel[e]
                u = g.src[e]
                if li not in rrlab:
                    ev = g.edge_call(e)[1][0]
                    rrlab[li] = ev.get('k') == 'Incoming' and ev['m'].get('t') == '2'
                if rrlab[li]:
                    return (ncls[u], sent_class(g.node_state(u)), li)
                return (ncls[u], li)
            ps, nk = g.keyed_cover(maxlen=maxlen, key=key, rng=rng)
            paths += ps
            self.edges_covered += nk
        if switch_budget:
            sw, cov, tot = g.switch_cover(maxlen=maxlen, budget=switch_budget, rng=rng)
            paths += sw
            self.pairs_cov += cov
            self.pairs_tot += tot
        self.graph_edges += g.m
        for p in paths:
            steps = [g.edge_call(e)[1][0] for e in p]
            self.scripts.append({'id': '%s/%d' % (name, len(self.scripts)), 'cfg': ecfg, 'steps': steps})
        self.confs.append(name)
        # which actions (event kinds) the graph exercises: a never-taken kind means a vacuous model
        kinds = set()
        for li in range(len(g.lab)):
            ev = graph.tlaval.parse_call(graph._unesc(g.lab[li]))[1][0]
            kinds.add(ev['k'] + ':' + (ev.get('m', {}).get('t', '') if isinstance(ev.get('m'), dict) else ev.get('e', '')))
        return g, kinds

    def add_scripts(self, conf, step_lists, tag='x'):
        ecfg = engine_cfg(conf)
        for steps in step_lists:
            self.scripts.append({'id': '%s/%s%d' % (conf_name(conf), tag, len(self.scripts)), 'cfg': ecfg, 'steps': steps})

    # ------------------------------------------------------------------ R + V
    def replay_and_validate(self, store='memory', chunk_lines=25000, only=None):
        ctx = self.ctx
        todo = [s_ for s_ in self.scripts if only is None or only(s_)]
        # the driver is single threaded: several driver processes, each with a slice of the scripts
        if store != 'memory' and len(todo) > 2000:
            # persistent stores are slow to create per script: a seed-chosen sample
            todo = random.Random(ctx.seed).sample(todo, 2000)
        nproc = (6 if store == 'memory' else 3) if len(todo) > 600 else 1
        import subprocess
        procs = []
        for k in range(nproc):
            sp = os.path.join(ctx.scratch, 'scripts_%s_%d.ndjson' % (store, k))
            common.ndjson_write(sp, todo[k::nproc])
            tp = os.path.join(ctx.scratch, 'trace_%s_%d.ndjson' % (store, k))
            env = dict(os.environ, VERIF_SEED=str(ctx.seed))
            procs.append((tp, subprocess.Popen([ctx.vh, 'session', '-scripts', sp, '-out', tp, '-store', store, '-repo', common.REPO],
                                               stdout=subprocess.PIPE, stderr=subprocess.PIPE, text=True, env=env)))
        rows = []
        for tp, pr in procs:
            try:
                _, err = pr.communicate(timeout=3000)
            except subprocess.TimeoutExpired:
                pr.kill()
                raise common.Infra('vh session timed out')
            if pr.returncode != 0:
                raise common.Infra('vh session failed: %s' % err[-2000:])
            rows += common.ndjson_read(tp)
        self.rows = rows
        # panics: the implementation crashed inside a step.  They are C09's business; here the
        # script simply ends before that step (recorded, never silently dropped).
        panics = [r for r in rows if 'panic' in r]
        clean = [r for r in rows if 'panic' not in r]
        self.panics = panics
        # split into chunks at trace boundaries, validate each with one TLC process
        chunks = []
        cur = []
        for r in clean:
            if r['ev'].get('k') == 'TraceReset' and len(cur) >= chunk_lines:
                chunks.append(cur)
                cur = []
            cur.append(r)
        if cur:
            chunks.append(cur)
        viols, divs = [], []
        from concurrent.futures import ThreadPoolExecutor
        def one(ch):
            return self._validate_chunk(ch)
        with ThreadPoolExecutor(max_workers=8) as ex:
            for v, d in ex.map(one, chunks):
                viols += v
                divs += d
        return clean, viols, divs

    def _validate_chunk(self, rows, props=None):
        ctx = self.ctx
        content = '\n'.join(json.dumps(r, separators=(',', ':')) for r in rows) + '\n'
        cfg = 'SPECIFICATION TraceSpec\nCONSTANTS\n  Props = {%s}\nPOSTCONDITION AllConsumed\nCHECK_DEADLOCK FALSE\n' % (
            ', '.join('"%s"' % p for p in (props or [self.pid])))
        r = ctx.tlc('SessionTrace.tla', 'tr.cfg', workers=1, files={'trace.ndjson': content, 'tr.cfg': cfg}, timeout=3000)
        out = r['out']
        if r['rc'] != 0 or 'Model checking completed. No error has been found.' not in out:
            raise common.Infra('SessionTrace did not run to completion (rc=%d):\n%s' % (r['rc'], out[-3000:]))
        viols = [(rows, v) for v in common.printed(out, 'VIOL')]
        divs = [(rows, v) for v in common.printed(out, 'DIVERGE')]
        return viols, divs

    # ------------------------------------------------------------------ follow-up of divergences
    def follow_up(self, divs, store='memory', limit=40):
        """A divergence says the real engine went somewhere the model does not go, but no property clause
        failed in that step.  What follows from there is not in any script (scripts are paths of the model's
        graph), so the prefix up to the diverging step is replayed on the real engine and continued with a
        fixed set of short probes; the monitors judge what the real engine does then.  Returns the
        violations found (the probes' own divergences are expected and not counted)."""
        def R(t, rs, **kw):
            m = {'t': t, 'rs': rs, 'seqc': 'ok', 'pd': 'none', 'ost': 'none', 'bs': 'ok', 'cid': 'ok', 'st': 'ok', 'val': 'ok', 'app': 'ok',
                 'gf': 'none', 'rn': -99, 'b': 0, 'e': 0, 'trid': '', 'rsf': 'none', 'hb': 30, 'dav': 'ok'}
            m.update(kw)
            return {'k': 'Incoming', 'm': m}
        snd = {'k': 'Send', 'a': {'x': 'b1', 'dns': False, 'ref': False}}
        probes = [[snd, {'k': 'Flush'}], [R('D', 0)], [R('D', 1)], [R('D', 0), R('D', 0)], [R('1', 0, trid='T1')],
                  [{'k': 'Timeout', 'e': 'PeerTimeout'}, {'k': 'Timeout', 'e': 'PeerTimeout'}], [R('2', 0, b=1, e=0)],
                  [R('D', 0, pd='Y', ost='ok'), R('D', 0, pd='Y', ost='ok'), R('D', 0)],
                  [{'k': 'Disconnected'}, {'k': 'Connect'}, R('A', 0)], [R('5', 0)], [R('A', 0)], [R('A', 0, rsf='Y')],
                  [{'k': 'Disconnected'}, {'k': 'Connect'}, R('A', 0, rsf='Y')],
                  [R('A', 0, rsf='Y'), R('1', 0, trid='T1')], [R('A', 0), snd, {'k': 'Flush'}], [R('A', -1, rsf='Y')],
                  [R('A', -1, rsf='Y'), R('0', 0)], [{'k': 'Timeout', 'e': 'LogoutTimeout'}, snd, {'k': 'Flush'}]]
        seen = set()
        scripts = []
        for rows, d in divs:
            line = int(d[1])
            row = rows[line - 1]
            start = line - 1
            while start > 0 and rows[start]['ev'].get('k') != 'TraceReset':
                start -= 1
            pre = rows[line - 2]['post'] if line >= 2 else {}
            ev = row['ev']
            key = (rows[start].get('cfg', {}).get('role'), pre.get('st'), ev.get('k'), json.dumps(ev.get('m', ev.get('e', '')), sort_keys=True)[:200] if ev.get('k') != 'Incoming'
                   else (ev['m'].get('t'), ev['m'].get('seq', 0) - pre.get('nIn', 0), ev['m'].get('cid'), ev['m'].get('bs'), ev['m'].get('st'), ev['m'].get('pd')))
            if key in seen or len(seen) >= limit:
                continue
            seen.add(key)
            prefix = [x['ev'] for x in rows[start + 1:line]]
            for k, pr in enumerate(probes):
                scripts.append({'id': 'followup/%d/%d' % (len(seen), k), 'cfg': rows[start].get('cfg'), 'steps': prefix + pr})
        if not scripts:
            return []
        keep = self.scripts
        self.scripts = scripts
        try:
            rows, viols, _ = self.replay_and_validate(store=store + '_fu' if False else store)
        finally:
            self.scripts = keep
        self.ctx.notes.append('%d divergence point(s) followed up with %d probe scripts on the real engine: %d clause failure(s)' % (
            len(seen), len(scripts), len(viols)))
        return viols

    # ------------------------------------------------------------------ verdicts
    def judge(self, viols, divs):
        ctx = self.ctx
        seen_traces = set()
        for rows, v in viols:
            line, prop, clauses = int(v[1]), v[2], list(v[3])
            row = rows[line - 1]
            start = line - 1
            while start > 0 and rows[start]['ev'].get('k') != 'TraceReset':
                start -= 1
            pre = rows[line - 2]['post'] if line >= 2 else {}
            steps = [x['ev'] for x in rows[start + 1:line]]
            for c in clauses:
                sig = signature(prop, c, pre, row)
                what = '%s clause %s: pre=%s ev=%s out=%s cb=%s post=%s' % (
                    prop, c, brief_post(pre), brief_ev(row['ev']), brief_out(row['out']),
                    [x['k'] + ':' + x['t'] + ':' + str(x['seq']) for x in row['cb']], brief_post(row['post']))
                ctx.report(sig, what, {'cfg': rows[start].get('cfg'), 'steps': steps, 'abs': True, 'observed': row})
        div_traces = set()
        for rows, d in divs:
            line = int(d[1])
            tr_id = rows[line - 1].get('tr')
            if tr_id in div_traces:
                continue          # after the first divergence the model continues from its own state
            div_traces.add(tr_id)
            if len(div_traces) <= 5:
                row = rows[line - 1]
                ctx.notes.append('divergence at %s step %s (%s): ev=%s observed out=%s post=%s ; model=%s' % (
                    tr_id, row.get('i'), sorted(d[2]), brief_ev(row['ev']), brief_out(row.get('out', [])),
                    brief_post(row.get('post', {})), json.dumps(d[3], default=str)[:600]))
        ctx.divergences += len(div_traces)
        return len(div_traces)


def node_class(st):
    eng = st['eng']
    cur = eng['cur']
    nin = eng['nIn']
    stash = cur['stash']
    if isinstance(stash, dict):
        sk = tuple(sorted((int(k) - nin, v.get('t'), v.get('app'), v.get('pd')) for k, v in stash.items()))
    else:
        sk = tuple((i + 1 - nin, v.get('t'), v.get('app'), v.get('pd')) for i, v in enumerate(stash))
    inb = tuple((m.get('t'), m.get('seq', 0) - nin) for m in eng['inbuf'])
    aux = st.get('aux', {})
    return (cur['n'], cur['p'], cur['alloc'], sk, cur['rrEnd'] - nin if cur['rrEnd'] else None,
            cur['rrCur'] - nin if cur['rrCur'] else None, len(eng['q']), eng['conn'], eng['sentReset'],
            eng['pstop'], eng['stopped'], inb, nin == 1, eng['nOut'] == 1, eng['hb'],
            aux.get('notified'), aux.get('ourLogout'), aux.get('hadPeriod'))


def sent_class(st):
    sent = st['eng']['sent']
    if isinstance(sent, dict):
        return tuple(sorted((int(k), v['k'], v['ref']) for k, v in sent.items()))
    return tuple((i + 1, v['k'], v['ref']) for i, v in enumerate(sent))


def brief_ev(ev):
    if ev.get('k') in ('Incoming', 'Preload'):
        m = ev['m']
        extra = {k: v for k, v in m.items() if k not in ('t', 'seq') and v not in ('ok', 'none', '', 0, 30)}
        return '%s(%s seq=%s %s)' % (ev['k'], m.get('t'), m.get('seq'), extra)
    return json.dumps(ev)


def brief_out(out):
    return ['%s:%s%s a=%s b=%s c=%s x=%s' % (o['t'], o['seq'], 'P' if o['pd'] else '', o['a'], o['b'], o['c'], o['x']) for o in out]


def brief_post(p):
    if not p:
        return '{}'
    return '%s nIn=%s nOut=%s stash=%s rr=%s/%s q=%s conn=%s inbuf=%s' % (
        p.get('st'), p.get('nIn'), p.get('nOut'), p.get('stash'), p.get('rrCur'), p.get('rrEnd'), p.get('q'), p.get('conn'), p.get('inbuf'))


def signature(prop, clause, pre, row):
    """the abstract failing case, matched against KNOWN_FINDINGS.json (never 'any violation of Cxx')"""
    ev = row['ev']
    post = row.get('post', {})
    sig = {'family': 'session', 'property': prop, 'clause': clause, 'pre_st': pre.get('st'), 'post_st': post.get('st'),
           'ev': ev.get('k'), 'inbuf': 'nonempty' if pre.get('inbuf', 0) > 0 else 'empty',
           'left_recovery': pre.get('st') in ('resend', 'pending(resend)') and post.get('st') not in ('resend', 'pending(resend)')}
    if ev.get('k') in ('Incoming', 'Preload'):
        m = ev['m']
        sig['t'] = m.get('t')
        seq, nin = m.get('seq'), pre.get('nIn')
        if m.get('seqc') == 'ok' and isinstance(seq, int) and isinstance(nin, int):
            sig['seq'] = 'high' if seq > nin else ('low' if seq < nin else 'exact')
        for k in ('bs', 'cid', 'st', 'seqc', 'val', 'app', 'pd', 'ost', 'gf', 'rsf'):
            if m.get(k) not in ('ok', 'none', None):
                sig[k] = m.get(k)
    elif ev.get('k') == 'Timeout':
        sig['e'] = ev.get('e')
    return sig


def standard_run(ctx, pid, family, props, confs, quick_budget, thorough_budget, statement, stores=None, extra_scripts=None,
                 maxlen=30, quick_bounds=None, thorough_bounds=None):
    import time
    quick = ctx.tier == 'quick'
    ctx.build()
    fam = Family(ctx, pid, family, props)
    kinds = set()
    t0 = time.time()
    jobs = []
    timing = []
    for idx, conf in enumerate(confs):
        conf = dict(conf)
        for k, v in ((quick_bounds if quick else thorough_bounds) or ({} if quick else {'maxOut': 4})).items():
            conf.setdefault(k, v)
        jobs.append((pid, family, props, conf, idx, ctx.seed, ctx.scratch, maxlen, quick_budget if quick else thorough_budget,
                     'class' if quick else 'edges'))
    from concurrent.futures import ProcessPoolExecutor
    with ProcessPoolExecutor(max_workers=min(5 if quick else 2, len(jobs))) as ex:
        for res in ex.map(_model_job, jobs):
            fam.scripts += res['scripts']
            fam.states += res['states']
            fam.transitions += res['transitions']
            fam.graph_edges += res['graph_edges']
            fam.edges_covered += res['edges_covered']
            fam.pairs_cov += res['pairs_cov']
            fam.pairs_tot += res['pairs_tot']
            fam.confs.append(res['name'])
            kinds |= set(res['kinds'])
            ctx.notes += res['notes']
            timing.append('%s %.0fs/%d' % (res['name'], res['secs'], res['nstates']))
    ctx.notes.append('M+G %.1fs, %d scripts, %d steps (%s)' % (time.time() - t0, len(fam.scripts), sum(len(s['steps']) for s in fam.scripts), ', '.join(timing)))
    if extra_scripts:
        extra_scripts(fam)
    stores = stores or ['memory']
    total_rows = 0
    nviol = 0
    ndiv = 0
    samples = []
    distinct = set()
    for store in stores:
        only = None
        if isinstance(store, tuple):          # (store, predicate on scripts)
            store, only = store
        t1 = time.time()
        rows, viols, divs = fam.replay_and_validate(store=store, only=only)
        ctx.notes.append('R+V(%s) %.1fs' % (store, time.time() - t1))
        total_rows += len(rows)
        if divs:
            viols = viols + fam.follow_up(divs, store=store)
        fam.judge(viols, divs)
        pre = None
        for r in rows:
            if r['ev'].get('k') == 'TraceReset':
                pre = r['post'].get('st')
                continue
            ev = r['ev']
            key = (pre, ev.get('k'), json.dumps(ev.get('m', ev.get('e', ev.get('a', ''))), sort_keys=True))
            distinct.add(key)
            pre = r['post'].get('st') if 'post' in r else None
        if not samples:
            i0 = next(i for i, r in enumerate(rows) if r['ev'].get('k') == 'TraceReset')
            samples = [{'cfg': rows[i0]['cfg'], 'trace': [{'ev': brief_ev(r['ev']), 'out': brief_out(r['out']),
                        'cb': [c['k'] + ':' + c['t'] + ':' + str(c['seq']) for c in r['cb']], 'post': brief_post(r['post'])}
                        for r in rows[i0 + 1:i0 + 9] if r['ev'].get('k') != 'TraceReset']}]
        if store == (stores[0][0] if isinstance(stores[0], tuple) else stores[0]):
            negative_control(ctx, fam, rows)
    if fam.panics:
        ctx.notes.append('%d script(s) ended in a panic of the implementation (reported under C09): %s' % (
            len(fam.panics), fam.panics[0].get('panic')))
    ctx.cov.update({
        'states': fam.states, 'transitions': fam.transitions,
        'graph_edges': fam.graph_edges, 'edges_covered_by_scripts': fam.edges_covered,
        'switch_pairs_covered': fam.pairs_cov, 'switch_pairs_total': fam.pairs_tot,
        'traces_validated_against_impl': len(fam.scripts) * len([st_ for st_ in stores if not isinstance(st_, tuple)]),
        'evaluations': total_rows,
        'distinct_nontrivial': len(distinct),
        'rule': 'one case = one event executed on a real session; distinct = distinct (state before, event) pairs',
        'configurations': fam.confs, 'stores': [st_[0] if isinstance(st_, tuple) else st_ for st_ in stores], 'event_kinds_in_model': sorted(kinds),
        'samples': samples, 'exhaustive': False,
        'monitors': statement,
        'panicked_scripts': len(fam.panics),
    })
    ctx.assumptions += ['the synchronous driver calls the state machine entry points the run loop calls, one event at a time',
                        'bounded model: %s' % ((quick_bounds if quick else thorough_bounds) or DEFAULTS)]
    return fam


def negative_control(ctx, fam, rows):
    """binding demonstration: a corrupted counter in a recorded trace must be flagged as a divergence"""
    import copy
    i0 = next(i for i, r in enumerate(rows) if r['ev'].get('k') == 'TraceReset')
    j = i0 + 1
    while j < len(rows) and rows[j]['ev'].get('k') != 'TraceReset':
        j += 1
    head = copy.deepcopy(rows[i0:j])
    if len(head) < 3:
        return
    head[2]['post']['nIn'] += 1
    v, d = fam._validate_chunk(head)
    if not any(int(x[1][1]) == 3 for x in d):
        raise common.Infra('negative control failed: corrupted nIn at line 3 was accepted by SessionTrace')
    ctx.notes.append('negative control: corrupted nIn rejected by SessionTrace (conformance) at the corrupted line')


def standard_replay(ctx, pid, path):
    with open(path) as f:
        d = json.load(f)
    rp = d['replay']
    ctx.build()
    fam = Family(ctx, pid, 'replay', [])
    fam.scripts = [{'id': 'replay', 'cfg': rp['cfg'], 'steps': rp['steps']}]
    rows, viols, divs = fam.replay_and_validate()
    for r in rows:
        if r['ev'].get('k') != 'TraceReset':
            print(brief_ev(r['ev']), '->', brief_out(r['out']), [c['k'] + ':' + c['t'] + ':' + str(c['seq']) for c in r['cb']], brief_post(r['post']))
    fam.judge(viols, divs)
    ctx.cov.update({'states': 1, 'transitions': 1, 'traces_validated_against_impl': 1, 'samples': [rp['steps'][-1]]})
