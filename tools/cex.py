#!/usr/bin/env python3
"""summarise a TLC counterexample of Session.tla: one line per state (event, state value, counters, wire)"""
import re, sys
s = open(sys.argv[1]).read()
for m in re.finditer(r'State (\d+):.*?(?=State \d+:|\Z)', s, re.S):
    blk = m.group(0)
    ev = re.search(r'lastEv = (.*?)(?=\n\n|\Z)', blk, re.S)
    cur = re.search(r'cur \|->\s*\n?\s*(\[.*?\]),\n', blk, re.S)
    nin = re.search(r'nIn \|-> (\d+)', blk)
    nout = re.search(r'nOut \|-> (\d+)', blk)
    out = re.search(r'  out \|->(.*?)cb \|->', blk, re.S)
    cb = re.search(r'  cb \|->(.*?)tm \|->', blk, re.S)
    print(m.group(1), 'nIn', nin.group(1) if nin else '', 'nOut', nout.group(1) if nout else '', ' '.join(cur.group(1).split()) if cur else '')
    if ev:
        e = ' '.join(ev.group(1).split())
        e = re.sub(r'(bs|seqc|pd|ost|cid|st|val|app|gf|dav) \|-> "(ok|none)",? ?', '', e)
        print('   ev:', e[:400])
    if out:
        o = ' '.join(out.group(1).split())
        o = re.sub(r', wf \|-> TRUE, rt \|-> "[^"]*"', '', o)
        print('   out:', o[:500])
    if cb:
        print('   cb:', ' '.join(cb.group(1).split())[:400])
