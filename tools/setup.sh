#!/bin/sh
# Run once in /verif after a fresh restore, offline: checks the tools and warms the Go build cache
# (the sqlite3 cgo driver takes ~50 s to compile cold).
set -e
export GOFLAGS=-mod=mod GOPROXY=off GOSUMDB=off GOTOOLCHAIN=local CGO_ENABLED=1
cd "$(dirname "$0")/.."
command -v tlc >/dev/null || { echo "tlc missing"; exit 1; }
command -v go >/dev/null || { echo "go missing"; exit 1; }
command -v gcc >/dev/null || { echo "gcc missing"; exit 1; }
T=$(mktemp -d)
trap 'rm -rf "$T"' EXIT
sed "s#@REPO@#${VERIF_REPO:-/repo}#" harness/go.mod.in > "$T/go.mod"
cp "${VERIF_REPO:-/repo}/go.sum" "$T/go.sum"
(cd harness && go build -tags verif -modfile "$T/go.mod" -o "$T/vh" ./cmd/vh)
echo "setup ok"
