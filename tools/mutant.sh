#!/bin/sh
# mutant.sh <patch.diff> <PID> [tier]  - apply a patch to a scratch copy of the repository, run the
# property's check against it (VERIF_REPO), print the outcome, remove the copy.
# Development tooling (DESIGN 4.4); not part of any registered command.
set -u
PATCH=$(readlink -f "$1"); PID=$2; TIER=${3:-quick}
D=$(mktemp -d /tmp/mut-XXXXXX)
trap 'rm -rf "$D"' EXIT
rsync -a --exclude .git /repo/ "$D/repo/"
if ! (cd "$D/repo" && patch -p1 -s < "$PATCH"); then echo "MUTANT $PATCH: patch failed"; exit 3; fi
if ! (cd "$D/repo" && GOFLAGS=-mod=mod GOPROXY=off GOSUMDB=off go build ./... ); then echo "MUTANT $PATCH: does not compile"; exit 3; fi
VERIF_REPO="$D/repo" /verif/check "$PID" --tier "$TIER" > "$D/out.txt" 2>&1
rc=$?
grep -E "VIOLATION|KNOWN-FINDING|INFRA|what:" "$D/out.txt" | head -8
echo "MUTANT $(basename $PATCH) on $PID: exit $rc"
[ $rc -eq 1 ]
