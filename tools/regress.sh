#!/bin/sh
# regress.sh [seeded|selftest]  - re-run every kept seeded change / self-test mutant against its property's
# quick check (scratch copy of the repository each time) and list the outcome.  Development tooling.
KIND=${1:-seeded}
cd /verif
if [ "$KIND" = seeded ]; then
  for d in seeded/*/; do
    id=$(basename "$d"); pid=${id%-*}
    python3 tools/seed_eval.py "$pid" "seeded/$id" "$id" --recheck 2>&1 | tail -1
  done
else
  for f in selftest/*/*.diff; do
    pid=$(basename "$(dirname "$f")")
    out=$(tools/mutant.sh "$f" "$pid" 2>&1 | tail -1)
    echo "$pid $(basename "$f"): $out"
  done
fi
