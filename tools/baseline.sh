#!/bin/sh
# Runs the repository's baseline suite with the verif tag OFF and checks every
# test listed as stable in /root/.vp/BASELINE.json still passes.
export GOFLAGS=-mod=mod GOPROXY=off GOSUMDB=off GOTOOLCHAIN=local
REPO=${VERIF_REPO:-/repo}
OUT=$(mktemp)
T=$(mktemp -d /tmp/baseline-XXXXXX)     # the suite leaves directories in TMPDIR: give it one of its own
(cd "$REPO" && TMPDIR="$T" go test -mod=mod -json -vet=off -count=1 -timeout 25m ./... > "$OUT" 2>/dev/null)
python3 - "$OUT" <<'PY'
import json,sys
passed=set()
for l in open(sys.argv[1]):
    try: e=json.loads(l)
    except Exception: continue
    if e.get('Action')=='pass' and e.get('Test'):
        passed.add(e['Package']+'::'+e['Test'])
base=json.load(open('/root/.vp/BASELINE.json'))['stable_pass']
missing=[t for t in base if t not in passed]
print(f"baseline: {len(base)-len(missing)}/{len(base)} stable tests pass")
for t in missing[:20]: print("MISSING", t)
sys.exit(1 if missing else 0)
PY
rc=$?
rm -rf "$OUT" "$T"
exit $rc
