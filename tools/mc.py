#!/usr/bin/env python3
"""mc.py <family> <P_Cxx,...> [k=v ...]  - run TLC on Session.tla for one configuration and summarise the outcome"""
import subprocess, sys, os, tempfile, shutil
sys.path.insert(0, '/verif')
from lib import sessfam
fam, props = sys.argv[1], sys.argv[2].split(',')
conf = {}
for a in sys.argv[3:]:
    k, v = a.split('=')
    conf[k] = (v == 'True') if v in ('True', 'False') else (int(v) if v.lstrip('-').isdigit() else v)
d = tempfile.mkdtemp(prefix='mc-')
for f in os.listdir('/verif/spec'):
    shutil.copy('/verif/spec/' + f, d)
open(d + '/mc.cfg', 'w').write(sessfam.mk_cfg(fam, conf, props))
import os as _os
p = subprocess.run(['timeout', '900', 'tlc', '-workers', '16', '-metadir', d + '/md', '-config', 'mc.cfg', 'Session.tla'], cwd=d, capture_output=True, text=True, env=dict(_os.environ, JAVA_TOOL_OPTIONS='-Djava.io.tmpdir=' + d))
open(d + '/out.txt', 'w').write(p.stdout + p.stderr)
for l in (p.stdout + p.stderr).splitlines():
    if ('Error' in l and 'behavior' not in l) or 'states generated' in l or 'violated' in l or 'evaluat' in l:
        print(l)
if 'Error' in p.stdout:
    subprocess.run(['/verif/tools/cex.py', d + '/out.txt'])
shutil.rmtree(d)
