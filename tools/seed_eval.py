#!/usr/bin/env python3
"""seed_eval.py <PID> <src_dir> <seed_id> [tier]
Confirms a seeded change (patch.diff + demo_test.go) in a scratch copy of /repo: the demo passes
without the change and fails with it, the library builds and the baseline suite passes with it;
then runs the property's check against the changed copy (VERIF_REPO) and stores everything under
/verif/seeded/<seed_id>/ (patch.diff, demo, README.md, meta.json)."""
import json, os, re, shutil, subprocess, sys, tempfile
pid, src, sid = sys.argv[1], sys.argv[2], sys.argv[3]
tier = sys.argv[4] if len(sys.argv) > 4 and not sys.argv[4].startswith('--') else 'quick'
recheck = '--recheck' in sys.argv        # only re-run the check against the kept patch and update meta.json
env = dict(os.environ, GOFLAGS='-mod=mod', GOPROXY='off', GOSUMDB='off', GOTOOLCHAIN='local')
d = tempfile.mkdtemp(prefix='seed-')
os.makedirs(d + '/tmp')
env['TMPDIR'] = d + '/tmp'        # the demos and the suite leave directories behind: inside the scratch copy
repo = d + '/repo'
subprocess.run(['rsync', '-a', '--exclude', '.git', '--exclude', '_seed', '/repo/', repo + '/'], check=True)
demo_src = open(src + '/demo_test.go').read()
pkg = re.search(r'^package (\w+)', demo_src, re.M).group(1)
pkgdir = {'quickfix': '.', 'file': 'store/file', 'sql': 'store/sql', 'internal': 'internal', 'datadictionary': 'datadictionary',
          'quickfix_test': '.', 'file_test': 'store/file', 'sql_test': 'store/sql'}.get(pkg, '.')
demo_dst = os.path.join(repo, pkgdir, 'zz_seed_demo_test.go')
shutil.copy(src + '/demo_test.go', demo_dst)
def run_demo():
    p = subprocess.run(['go', 'test', '-tags', 'verif', '-vet=off', '-count=1', '-timeout', '180s', '-run', 'Seed|seed|Demo', './' + pkgdir],
                       cwd=repo, env=env, capture_output=True, text=True)
    return p.returncode, (p.stdout + p.stderr)[-1500:]
meta = {'seed': sid, 'property': pid, 'source': 'independent sub-agent given only the property text and a scratch worktree'}
if recheck:
    meta = json.load(open('/verif/seeded/' + sid + '/meta.json'))
    os.remove(demo_dst)
    p = subprocess.run(['patch', '-p1', '-s', '-i', os.path.abspath(src + '/patch.diff')], cwd=repo, capture_output=True, text=True)
    if p.returncode != 0:
        print(sid, 'patch no longer applies to /repo HEAD'); shutil.rmtree(d); sys.exit(3)
    ck = subprocess.run(['/verif/check', pid, '--tier', tier], env=dict(os.environ, VERIF_REPO=repo), capture_output=True, text=True)
    lines = [l for l in ck.stdout.splitlines() if re.match(r'VIOLATION|  what:|DIVERGENCE|C\d\d:', l)]
    meta.setdefault('first_run', {'exit': meta['check']['exit'], 'detected': meta['detected']})
    meta['check'] = {'cmd': 'VERIF_REPO=<scratch copy with the patch> ./check %s --tier %s' % (pid, tier), 'exit': ck.returncode,
                     'output': lines[:6], 'stderr': ck.stderr[-300:]}
    meta['detected'] = ck.returncode == 1
    json.dump(meta, open('/verif/seeded/' + sid + '/meta.json', 'w'), indent=1)
    shutil.rmtree(d)
    print(sid, 'recheck exit=%d detected=%s (first run: %s)' % (ck.returncode, meta['detected'], meta['first_run']['detected']))
    sys.exit(0)
rc0, out0 = run_demo()
meta['demo_without_change'] = 'pass' if rc0 == 0 else 'FAIL'
p = subprocess.run(['patch', '-p1', '-s', '-i', os.path.abspath(src + '/patch.diff')], cwd=repo, capture_output=True, text=True)
meta['patch_applies'] = p.returncode == 0
b = subprocess.run(['go', 'build', './...'], cwd=repo, env=env, capture_output=True, text=True)
meta['builds'] = b.returncode == 0
rc1, out1 = run_demo()
meta['demo_with_change'] = 'fail' if rc1 != 0 else 'PASS'
meta['demo_output_with_change'] = out1[-600:]
os.remove(demo_dst)
bl = subprocess.run(['/verif/tools/baseline.sh'], env=dict(env, VERIF_REPO=repo), capture_output=True, text=True)
meta['baseline_with_change'] = bl.stdout.strip().splitlines()[-1] if bl.stdout.strip() else bl.stderr[-200:]
meta['confirmed'] = (rc0 == 0 and rc1 != 0 and meta['builds'] and bl.returncode == 0)
ck = subprocess.run(['/verif/check', pid, '--tier', tier], env=dict(os.environ, VERIF_REPO=repo), capture_output=True, text=True)
lines = [l for l in ck.stdout.splitlines() if re.match(r'VIOLATION|KNOWN-FINDING|  what:|DIVERGENCE|C\d\d:', l)]
meta['check'] = {'cmd': 'VERIF_REPO=<scratch copy with the patch> ./check %s --tier %s' % (pid, tier), 'exit': ck.returncode,
                 'output': lines[:12], 'stderr': ck.stderr[-500:]}
meta['detected'] = ck.returncode == 1
out = '/verif/seeded/' + sid
os.makedirs(out, exist_ok=True)
for f in ('patch.diff', 'demo_test.go', 'README.md'):
    if os.path.exists(src + '/' + f):
        shutil.copy(src + '/' + f, out + '/' + f)
rd = open(src + '/README.md').read() if os.path.exists(src + '/README.md') else ''
meta['needs'] = 'see README.md'
json.dump(meta, open(out + '/meta.json', 'w'), indent=1)
shutil.rmtree(d)
print(sid, 'confirmed=%s' % meta['confirmed'], 'check_exit=%d' % ck.returncode, 'detected=%s' % meta['detected'])
