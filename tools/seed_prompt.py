#!/usr/bin/env python3
"""seed_prompt.py <PID> <worktree> [round]  - the task text handed to an independent sub-agent that seeds
changes for one property.  It gets the property's title, statement and quantifier and nothing from /verif.
Development tooling (DESIGN 0.5)."""
import json
import sys
pid, wt = sys.argv[1], sys.argv[2]
rnd = int(sys.argv[3]) if len(sys.argv) > 3 else 1
for l in open('/verif/properties.jsonl'):
    d = json.loads(l)
    if d['id'] == pid:
        prop = '%s\n\n%s\n\nQuantification: %s' % (d['title'], d['statement'], d['quantifier']['text'])
extra = ''
if rnd > 1:
    extra = ('\nThis is a second round: avoid the most obvious place for such a slip. Prefer changes that involve a configuration option, '
             'a rarely used message type or store back end, a boundary value, an error or recovery path, the interaction of two features, '
             'or a code path reached only after a particular history.\n')
if rnd > 2:
    extra = ('\nThis is a third round; two earlier rounds already produced the obvious slips and slips tied to single configuration options. '
             'Look for something different: a slip whose effect is delayed (the state is wrong now, the symptom comes several events later), '
             'a slip in how state is carried across connections, restarts or epochs, a slip that needs two unusual conditions at once, '
             'or a slip in code shared by several message types that only one of them exposes.\n')
print(f'''You are helping test a verification effort for the Go library quickfixgo/quickfix (a FIX protocol engine). Work ONLY inside the git worktree at {wt} (a checkout of the library). Do not look at or touch any other directory (in particular nothing outside {wt}).

Here is a semantic property the library is supposed to satisfy:

{prop}

Your task: produce TWO different, independent source changes ("seeded defects") to the library, each of which BREAKS this property, while (1) the library still compiles (`go build ./...`) and (2) the library's existing test suite still passes (`go test -vet=off -count=1 ./...` in {wt}; the tests under log/mongo and store/mongo fail already without any change because there is no MongoDB - ignore those). The changes must be realistic (the kind of slip a maintainer could make in a refactoring or an 'optimisation'), small (a few lines), and must need something SPECIFIC to manifest: a particular multi-step sequence of messages/operations, a particular state, an unusual input, a particular interleaving or fault point, or two cooperating sites that each look fine alone. Do NOT produce changes that ordinary use would expose at once (e.g. that break every message) - the existing tests must not notice them.
{extra}
For each change, write a demonstration: a Go test file (package quickfix or the relevant package, may use unexported identifiers, name it zz_seed_demo_a_test.go / zz_seed_demo_b_test.go) or a small program, which FAILS with the change applied and PASSES without it. Verify this yourself both ways.

Environment: no network. Before running go, export GOFLAGS=-mod=mod GOPROXY=off GOSUMDB=off GOTOOLCHAIN=local. Always pass -timeout 120s to go test for your demo. Files in the repo whose name starts with verif_ or that carry the build tag `verif` are test instrumentation - do not modify or rely on them. Do NOT use `git stash` (the stash is shared between worktrees); use `git diff > file`, `git apply`, `git apply -R` and `git checkout -- .` instead.

Deliverables, written into {wt}/_seed/ :
  a/patch.diff   (output of `git diff` for change A only, relative to HEAD, NOT including the demo test)
  a/demo_test.go (the demonstration for A; say at the top of the file which package directory it belongs in)
  a/README.md    (what the change is, why it breaks the property, exactly what is needed for it to manifest, and the commands you ran with their outcome)
  b/...          (same for change B)
When done, leave the worktree with NO source change applied (git checkout -- . ; demos removed from the source tree; only _seed/ remains). Reply with a short summary of the two changes.''')
