#!/usr/bin/env python3
"""writes /verif/MANIFEST.json from the table below (kept in one place so that it stays valid)"""
import json, os, subprocess
V = '/verif'
hooks_commits = subprocess.run(['git', '-C', '/repo', 'log', '--format=%h %s'], capture_output=True, text=True).stdout.splitlines()
hook_ids = [l.split()[0] for l in hooks_commits if l.split(' ', 1)[1].startswith('verif:')]

SESSION_NOTE = ('Trusted: TLC 1.8.0; the Go driver /verif/harness/vsession (synchronous stepping of a real session built by the real '
                'factory, recording Application/Store, independent tag=value scanner fixscan); the concretisation of abstract messages. '
                'Bounds: counters and histories as in the evidence file; events from the family alphabet of Session.tla.')
CHECKS = {
 'C01': ('model_checking', 'TLC model checking of Session.tla (family seq) + state-graph-covering scripts replayed on the real session + TLC trace validation of the recorded traces against Monitors.tla (C01 clauses) and Engine.tla',
         'Exhaustive on the bounded model (every inbound kind x sequence class x PossDup x gap fill/reset x application verdict in every reachable state); on the code, every (state class, event) pair of that graph is executed and each step judged by the C01 monitors.', '6 C01', SESSION_NOTE),
 'C03': ('model_checking', 'TLC model checking of Session.tla (family resend) + graph-covering scripts on the real session + TLC trace validation (C03 clauses)',
         'Every ResendRequest range (empty, inverted, beyond the end, both end markers) over every sent history of the bounded model, with and without persistence, with the shipped dictionary configured (application messages starting / ending with a repeating group) and on the file store with RefreshOnLogon; replayed bytes projected by an independent scanner.', '6 C03', SESSION_NOTE),
 'C04': ('model_checking', 'TLC model checking of Session.tla (family seq, chunk sizes 0..3) + graph-covering scripts on the real session + TLC trace validation (C04 clauses)',
         'Every arrival order of replays, gap fills and live messages during recovery within the bounds, gaps detected on the Logon, with a TestRequest pending.', '6 C04', SESSION_NOTE),
 'C06': ('model_checking', 'TLC model checking of Session.tla (family gate) + graph-covering scripts on the real session + TLC trace validation (C06 clauses)',
         'Every single header defect class x message kind x sequence class in every logged-on state of the bounded model; reactions, RefSeqNum and reversed routing read from the real outbound bytes.', '6 C06', SESSION_NOTE),
 'C07': ('model_checking', 'TLC model checking of Session.tla (family reset: reset options, ResetSeqTime, session schedule) + graph-covering scripts on the real session + TLC trace validation (C07 clauses); divergences followed up with probe scripts on the real engine',
         'Reset options x ResetSeqTime x session schedule x role x BeginString; Logon with/without ResetSeqNumFlag, the ticker crossing ResetSeqTime / leaving / re-entering the schedule, SequenceReset with lower/equal/higher NewSeqNo, logout, disconnect, reconnect in every reachable state of the bounded model.', '6 C07', SESSION_NOTE),
 'C08': ('model_checking', 'TLC model checking of Session.tla (family life) + graph-covering scripts on the real session + TLC trace validation (C08 clauses)',
         'Connects, timeouts, stop, sends while disconnected, disconnects with frames still buffered, the session schedule ending and restarting (notSessionTime), both roles.', '6 C08', SESSION_NOTE),
 'C20': ('model_checking', 'TLC model checking of Session.tla (family keep) + graph-covering scripts on the real session + TLC trace validation (C20 clauses, timer arming through the EventTimer hook)',
         'All interleavings of inbound messages, sends and timer events in the four logged-on states of the bounded model; event order, not wall-clock time.', '6 C20', SESSION_NOTE + ' Real-time spacing on the run loop is not measured by this check.'),
 'C16': ('model_checking', 'TLC model checking of Store.tla + graph-covering operation scripts executed on memory/file/sqlite stores + TLC trace validation against Store!Apply',
         'Every operation sequence of the bounded abstract store (edge cover, sampled 1-switch cover, two sessions sharing a medium, random walks beyond the bounds) with every return value compared by TLC.', '6 C16',
         'Trusted: TLC, the vstore driver, sqlite3 as the SQL back end (no other SQL server in the sandbox). Mongo store not covered.'),
}
CODEC_NOTE = 'Trusted: TLC 1.8.0; the Go driver under /verif/harness (independent tag=value scanner fixscan, concretisation of abstract cases); TLC integers are 32-bit.'
CHECKS.update({
 'C09': ('exploration', 'specification-derived structured malformed inputs (Wire.tla field lists, Values.tla near-miss texts, Framer.tla pieces, settings/dictionary line and tree kinds) run through the real code under recover()+watchdog; session part: TLC model checking of Session.tla family garbage + graph-covering scripts + TLC trace validation (monitor C09 stillProcesses)',
         'Every single and sampled double structural mutation of well-formed messages, every near-miss value text, truncation at every byte, length/XMLDataLen torture, malformed settings and dictionaries, mutated messages against shipped dictionaries, malformed frames in every session state followed by a TestRequest. Not a coverage-guided fuzzer: random byte strings beyond this space are not explored.', '6 C09 and 10',
         CODEC_NOTE + ' A hang is anything slower than 5 s per case.'),
 'C10': ('model_checking', 'TLC model checking of FieldMap.tla + state-graph-covering API-call scripts (edge cover, 1-switch tours, random walks) executed on real quickfix.Message objects + TLC trace validation of every build (FieldMapTrace.tla)',
         'Every API call sequence of the bounded model (set/overwrite/remove/clear/set again/group set on header, body, trailer) with the built bytes judged by an independent scanner, ParseMessage and CopyInto after every call.', '6 C10', CODEC_NOTE),
 'C11': ('model_checking', 'TLC model checking of Wire.tla (section classification) + generated wire messages parsed by the real parser with no / application / transport+application dictionaries + TLC trace validation against the ground-truth field list (WireTrace.tla)',
         'Well-formed skeletons over header/body/trailer tag subsets incl. XMLData with embedded SOH (in the header and after body fields / groups), dictionary-defined repeating groups, dictionary-only header/trailer tags, user-defined tags; every kind of single corruption of BodyLength and of the leading field order.', '6 C11', CODEC_NOTE),
 'C12': ('model_checking', 'TLC model checking of Framer.tla (prefix monotonicity of the content-only framing function) + the real parser run over every stream under many chunk schedules and buffer sizes + TLC trace validation (one result per stream, equal to Framer!Frames)',
         'All concatenations of up to 2 (quick) / 3 (thorough) pieces from 14 piece kinds, streams of well-formed messages separated by junk, streams larger than the 4096-byte buffer, a large message followed by a long tail of small ones; one-byte reads, fixed sizes, every single cut, random double cuts, ragged reads, the end of stream reported after or together with the last bytes; default and 16/32/64-byte buffers.', '6 C12', CODEC_NOTE),
 'C14': ('model_checking', 'TLC model checking of Values.tla (round-trip laws) + bounded-exhaustive near-miss texts and value grids through the real Read/Write + TLC trace validation against the grammars, denotations and printers (ValuesTrace.tla)',
         'Every text up to length 4 (quick) / 5 (thorough) over 9-character near-miss alphabets for int and float, up to 2 for boolean, every single-position substitution/deletion/insertion of 8 valid timestamps; value grids for the Write direction.', '6 C14',
         CODEC_NOTE + ' Texts the FIX grammar is silent on (".5", more than 9 digits, leap second, year 0000) are unspecified and never judged. Binary rounding of floats is delegated to strconv.'),
 'C17': ('fault_enumeration', 'TLC model checking of FileStore.tla (write protocol under crashes: the as-built protocol lists its violating image classes, a repaired protocol satisfies C17) + crash-point hook in the file store -> directory snapshots -> synthesised process-crash and power-loss images reopened by the real store; every image judged by TLC with Store!Apply (CrashTrace.tla); the real operations\' crash-point sequences and violating image classes are compared with the model\'s (FileStoreTrace.tla); system-call audit (strace) that every file an operation wrote is synced after its last write; SQL: injected statement failures through a wrapping database/sql driver',
         'Operation histories as the session produces them (incl. counters at digit roll-overs) x every crash point of the interrupted operation x cut positions (class representatives in quick, every byte in thorough) x process crash / power loss; a further save after reopening.', '6 C17',
         'Trusted: the crash-point hook names for which bytes count as synced INSIDE an operation (that everything written is synced when the operation returns is checked on system calls); strace; file removals/creations treated as immediately durable; sqlite3 as the SQL back end.'),
 'C18': ('model_checking', 'TLC model checking of Schedule.tla (window semantics: symmetric, transitive, convex, separated) + the real TimeRange evaluated on configurations x calendar grid x pairs in five time zones + TLC trace validation of every answer (ScheduleTrace.tla)',
         'All start/end times from a 5-value grid, 7 weekday subsets, all 49 start/end day pairs (a seed-chosen third in quick); instants every boundary +-30 min over four weeks containing DST shifts; pairs within 8 days.', '6 C18',
         CODEC_NOTE + ' Instants within one second of an edge and civil times that do not exist / are ambiguous in the zone are not judged.'),
 'C13': ('model_checking', 'TLC model checking of Groups.tla (reading back what Flatten writes is the identity) + group instances written through the public API / hand-assembled wire forms, parsed with and without the defining dictionary, read back through the template + TLC trace validation (GroupsTrace.tla)',
         'Synthetic templates up to depth 3 with entry counts 0/1/2/9/10/11, optional members on/off, nested counts 0/1/2/9/10, the group first/middle/last in the body, followed and preceded by another group; every group of every message of the shipped specifications (a seed-chosen subset of files in quick).', '6 C13', CODEC_NOTE),
 'C15': ('model_checking', 'generated conforming messages and single-defect mutations for the message types of the shipped specifications, validated by the real Validator under several settings; TLC re-derives each case\'s structural conformance from the specification documents (Dictionary.tla operators) and judges the answer (Validator.tla / ValidatorTrace.tla)',
         'Per message type: required-only and optional-rich conforming instances; defects: unknown MsgType, required field missing (body, header), tag unknown to the dictionary (below, at and above 5000), the same tolerated tag twice, tag not defined for the message, ill-formed value (garbage and near misses of the declared type), value outside the enumeration, empty value, duplicate, header field inside the body, group count mismatch (also a count without entries), group member order; settings: default and each relaxation.', '6 C15',
         CODEC_NOTE + ' Value well-formedness of generated conforming instances is the generator\'s; a member-order defect accepts any rejection; defects under a relaxing setting whose outcome the statement leaves open are not judged.'),
 'C19': ('model_checking', 'TLC model checking of Dictionary.tla (laws of the reachable-fields / required-tags / group-member operators) + the real datadictionary package loading shipped and generated specifications + TLC trace validation against documents exported by an independent XML walk (DictTrace.tla)',
         'The shipped specification files in full (all nine in thorough) and generated specifications with nested components and groups, optional/required members, dangling references, the required-through-optional-component shape.', '6 C19',
         CODEC_NOTE + ' The independent XML walk (lib/xmlwalk.py) is the ground truth for what a specification file says.'),
 'C02': ('model_checking', 'TLAPS proof of Numbering.tla (numbers handed out are exactly 1..next-1 for any number of processes) + TLC model checking of SendPath.tla (sender goroutines, session loop, resendMutex/sendMutex; three weakened protocols must violate) + forced schedules (a submission attempted at every application callback inside every replay, ResetSeqTime crossed while connected, bounded and unbounded ResendRequests, a reused Message object; memory and file store) + real sender goroutines against the real run loop with concurrent resend rounds, rejects and test requests, recorded through a recording store and the outbound channel + TLC evaluation of the C02 clauses on every recorded run (SendPathTrace.tla)',
         'Unbounded for the numbering core (TLAPS); every interleaving of 2-3 senders x 2 messages x loop actions in the model; on the code, forced schedules at every callback inside a replay and recorded schedules of 4-8 goroutines x 150-200 messages with 8-12 resend rounds per run, memory store in quick, memory/file/sqlite in thorough.', '6 C02',
         'Trusted: TLAPS 1.6 back ends; the Go scheduler for the stress part (a lock lost between two application callbacks shows only if the race occurs in the recorded runs, or kills the process with a runtime fatal error, which is reported as a violation); causal ordering of store saves and channel receipts by one atomic counter.'),
 'C05': ('model_checking', 'TLC model checking of Pair.tla (two Engine.tla machines, in-flight queues, sends, deliveries, cuts, reconnects, timer events, restarts; safety and completion after Stabilize(4)) + graph-covering and random fault schedules executed on two REAL sessions stepped against each other (memory stores; file stores with engine restarts) + TLC trace validation (PairTrace.tla: monitors and conformance of both engines) + timed schedules on the real Acceptor and Initiator over loopback TCP through a cutting proxy (PairLiveTrace.tla)',
         'Exhaustive on <= 3 sends, <= 2 cuts, <= 1 restart, <= 2 timer events, <= 3 messages in flight; on the code every edge of the cut-only graph plus hundreds (quick) / thousands (thorough) of random schedules with cuts, reconnects, heartbeats, peer timeouts and restarts, also with ResendRequestChunkSize 2; 12 (quick) / 96 (thorough) timed runs of the real network engines with cuts, sends while the link is down and re-creations of the initiator on its file store.', '6 C05',
         SESSION_NOTE + ' The forced schedules use no sockets or wall-clock timers (the link staying up is the deterministic settling operator); the TCP runs are timed, not forced (HeartBtInt 1 s, link up for up to 90 s).'),
})
NA = {}
for l in open(V + '/properties.jsonl'):
    p = json.loads(l)
    if p['id'] not in CHECKS:
        NA[p['id']] = 'check not built yet in this round (planned in DESIGN.md section 6); not claimed'
checks = []
for pid, (level, tech, text, ref, note) in sorted(CHECKS.items()):
    checks.append({'property_id': pid, 'quick_cmd': './check %s --tier quick' % pid, 'thorough_cmd': './check %s --tier thorough' % pid,
                   'evidence_file': '/verif/evidence/%s.json' % pid, 'replay_cmd_template': './check %s --replay {path}' % pid,
                   'engine': 'tlc+vh', 'level_claimed': {'category': level, 'text': text, 'design_ref': 'DESIGN.md section ' + ref},
                   'level_note': note, 'technique': tech})
m = {'version': 1,
     'setup_cmd': './tools/setup.sh',
     'hooks': {'guard': 'verif', 'enable': 'go build -tags verif (the harness is built with -tags verif against /repo via a replace directive)',
               'baseline_off_cmd': '/verif/tools/baseline.sh', 'source_commits': hook_ids, 'add_only': True},
     'engines': [{'name': 'tlc+vh', 'path': '/verif/check', 'serves_properties': sorted(CHECKS),
                  'kind_free_text': 'explicit TLA+ specifications (/verif/spec) checked by TLC; Go conformance harness (/verif/harness, binary vh) replaying TLC-generated behaviours into the real code; TLC trace validation of the recorded traces'}],
     'checks': checks,
     'not_applicable': [{'property_id': k, 'reason': v} for k, v in sorted(NA.items())],
     'notes': 'See DESIGN.md. Known findings: KNOWN_FINDINGS.json. Exit codes: 0 held, 1 violation, 2 infrastructure failure.'}
json.dump(m, open(V + '/MANIFEST.json', 'w'), indent=1)
print('checks:', sorted(CHECKS), 'not_applicable:', sorted(NA))
